package main

// KV store model: an ordered write log over an empty base store.

type storeEntry struct {
	key *SliceV
	val *SliceV // nil => delete
}

type storeItem struct {
	key *SliceV // full key
	val *SliceV
}

type StoreState struct {
	// parent != nil: a branch made by sdk.Context.CacheContext. Reads see the parent's entries
	// under the branch's own; writes stay in the branch until commit appends them to the parent.
	parent   *StoreState
	marks    map[string]bool // dependency-call markers (verifrt.envMark), branch-local until commit
	log      []storeEntry
	txMark   int
	reads    []*SliceV
	recReads bool
	name     string
}

// EnvState is the modelled execution environment of one path.
type EnvState struct {
	stores        []*StoreState
	events        []Value // *IfaceV of emitted typed events (deep copies)
	eventMark     int
	eventsMayFail bool
	eventErrs     int
	branchEvents  map[*StoreState][]Value // events of CacheContext branches not yet written
}

func (e *Exec) storeKeyCheck(k *SliceV, what string) {
	tb := e.tb
	e.panicIf(tb.Eq(k.len, tb.BV(0, 64)), what+": key is nil or empty")
}

func (e *Exec) snapshotBytes(s *SliceV) *SliceV {
	if s.blob != nil {
		n := *s
		n.blob = copyVal(s.blob)
		return &n
	}
	n := e.reprCap(s)
	a := &Alloc{}
	for i := 0; i < n; i++ {
		a.b = append(a.b, e.byteAt(s, i))
	}
	return (&SliceV{a: a, len: s.len, gocap: s.len, isNil: s.isNil, minLen: s.minLen, isStr: false}).withMax(n)
}

// fullLog is the write log a reader of st sees: the ancestors' entries, then its own.
func (st *StoreState) fullLog() []storeEntry {
	if st.parent == nil {
		return st.log
	}
	return append(append([]storeEntry{}, st.parent.fullLog()...), st.log...)
}

func (st *StoreState) root() *StoreState {
	for st.parent != nil {
		st = st.parent
	}
	return st
}

// commit applies a branch to its parent (cachekv Write): its writes become the parent's latest.
func (st *StoreState) commit() {
	if st.parent == nil {
		return
	}
	st.parent.log = append(st.parent.log, st.log...)
	st.log = nil
	for k := range st.marks {
		if st.parent.marks == nil {
			st.parent.marks = map[string]bool{}
		}
		st.parent.marks[k] = true
	}
	st.marks = nil
}

func (e *Exec) storeGet(st *StoreState, key *SliceV) *SliceV {
	tb := e.tb
	e.storeKeyCheck(key, "store get")
	if rt := st.root(); rt.recReads {
		// key capture for observational entry names: the read itself is not performed (no forks);
		// the reader sees a present, empty value
		rt.reads = append(rt.reads, e.snapshotBytes(key))
		return &SliceV{len: tb.BV(0, 64), gocap: tb.BV(0, 64), isNil: tb.ff}
	}
	full := st.fullLog()
	for i := len(full) - 1; i >= 0; i-- {
		en := full[i]
		if e.branch(e.bytesEqual(en.key, key)) {
			if en.val == nil {
				return &SliceV{len: tb.BV(0, 64), gocap: tb.BV(0, 64), isNil: tb.tt}
			}
			return e.snapshotBytes(en.val)
		}
	}
	return &SliceV{len: tb.BV(0, 64), gocap: tb.BV(0, 64), isNil: tb.tt}
}

func (e *Exec) storeSet(st *StoreState, key, val *SliceV) {
	e.storeKeyCheck(key, "store set")
	e.panicIf(val.isNil, "store set: value is nil")
	v := e.snapshotBytes(val)
	v.isNil = e.tb.ff
	st.log = append(st.log, storeEntry{key: e.snapshotBytes(key), val: v})
}

func (e *Exec) storeDelete(st *StoreState, key *SliceV) {
	e.storeKeyCheck(key, "store delete")
	st.log = append(st.log, storeEntry{key: e.snapshotBytes(key), val: nil})
}

// liveItems resolves the write log into the list of live entries whose key has the given prefix,
// sorted by key (byte-lexicographic). Equalities and order are decided by forking.
func (e *Exec) liveItems(st *StoreState, prefix *SliceV) []storeItem {
	var items []storeItem
	for _, en := range st.fullLog() {
		if prefix != nil && !e.branch(e.hasPrefix(en.key, prefix)) {
			continue
		}
		replaced := false
		for j := range items {
			if e.branch(e.bytesEqual(items[j].key, en.key)) {
				if en.val == nil {
					items = append(items[:j:j], items[j+1:]...)
				} else {
					items[j].val = en.val
				}
				replaced = true
				break
			}
		}
		if !replaced && en.val != nil {
			items = append(items, storeItem{key: en.key, val: en.val})
		}
	}
	// insertion sort with solver-decided comparisons
	for i := 1; i < len(items); i++ {
		j := i
		for j > 0 && e.branch(e.bytesLess(items[j].key, items[j-1].key)) {
			items[j], items[j-1] = items[j-1], items[j]
			j--
		}
	}
	return items
}

func (e *Exec) stripPrefix(key *SliceV, prefix *SliceV) *SliceV {
	tb := e.tb
	if prefix == nil {
		return e.snapshotBytes(key)
	}
	pl := e.concretize(prefix.len, e.reprCap(prefix), "prefix length")
	n := tb.Sub(key.len, tb.BV(int64(pl), 64))
	ml := key.minLen - pl
	if ml < 0 {
		ml = 0
	}
	s := (&SliceV{a: key.a, off: key.off + pl, len: n, gocap: n, isNil: tb.ff, minLen: ml}).withMax(e.reprCap(key) - pl)
	return e.snapshotBytes(s)
}

// iterator over [start,end) of the prefixed view
func (e *Exec) makeIterator(st *StoreState, prefix *SliceV, start, end *SliceV, reverse bool) *ModelObj {
	items := e.liveItems(st, prefix)
	var out []storeItem
	for _, it := range items {
		k := e.stripPrefix(it.key, prefix)
		if start != nil && !e.branch(start.isNil) {
			// start is inclusive
			if e.branch(e.bytesLess(k, start)) {
				continue
			}
		}
		if end != nil && !e.branch(end.isNil) {
			if !e.branch(e.bytesLess(k, end)) {
				continue
			}
		}
		out = append(out, storeItem{key: k, val: it.val})
	}
	if reverse {
		for i, j := 0, len(out)-1; i < j; i, j = i+1, j-1 {
			out[i], out[j] = out[j], out[i]
		}
	}
	return &ModelObj{kind: "iter", items: out}
}

func (e *Exec) fullKey(mo *ModelObj, key *SliceV) *SliceV {
	if mo.prefix == nil {
		return key
	}
	return e.concatBytes(mo.prefix, key, false)
}

func (e *Exec) asBytes(v Value, what string) *SliceV {
	s, ok := v.(*SliceV)
	if !ok {
		e.fail("%s: expected bytes, got %T", what, v)
	}
	return s
}

func (e *Exec) errIface(eo *ErrObj) *IfaceV {
	return &IfaceV{t: errDynType, v: eo}
}

func (e *Exec) nilErr() *IfaceV { return &IfaceV{} }

// modelMethod dispatches a method call on a modelled object.
func (e *Exec) modelMethod(mo *ModelObj, name string, args []Value) Value {
	tb := e.tb
	switch mo.kind {
	case "keccakstate":
		buf := mo.data["buf"].(*SliceV)
		switch name {
		case "Reset":
			if mo.global {
				e.noteGlobalWrite("KeccakState.Reset", mo)
			}
			mo.data["buf"] = e.constBytes("", false)
			return nil
		case "Write":
			if mo.global {
				e.noteGlobalWrite("KeccakState.Write", mo)
			}
			in := e.asBytes(args[0], "Write")
			mo.data["buf"] = e.concatBytes(buf, in, false)
			return TupleV{in.len, e.nilErr()}
		case "Read":
			if mo.global {
				e.noteGlobalWrite("KeccakState.Read", mo)
			}
			out := e.asBytes(args[0], "Read")
			if e.branch(tb.Not(tb.Eq(out.len, tb.BV(32, 64)))) {
				e.fail("KeccakState.Read into a buffer that is not 32 bytes")
			}
			h := e.keccak(buf)
			e.copyBytes(out, h)
			return TupleV{tb.BV(32, 64), e.nilErr()}
		case "Sum":
			if mo.global {
				e.noteGlobalRead(mo)
			}
			return e.concatBytes(e.asBytes(args[0], "Sum"), e.keccak(buf), false)
		case "Size":
			return tb.BV(32, 64)
		case "BlockSize":
			return tb.BV(136, 64)
		}
	case "storeservice":
		if name == "OpenKVStore" {
			st := mo.st
			// a context made by CacheContext opens the branch, not the transaction's store
			if c := ctxModel(args[0]); c != nil && c.st != nil && c.st.root() == mo.st {
				st = c.st
			}
			return &IfaceV{t: modelDynType, v: &ModelObj{kind: "corestore", st: st}}
		}
	case "corestore": // cosmossdk.io/core/store.KVStore (methods return errors)
		switch name {
		case "Get":
			return TupleV{e.storeGet(mo.st, e.asBytes(args[0], "Get")), e.nilErr()}
		case "Has":
			v := e.storeGet(mo.st, e.asBytes(args[0], "Has"))
			return TupleV{tb.Not(v.isNil), e.nilErr()}
		case "Set":
			e.storeSet(mo.st, e.asBytes(args[0], "Set"), e.asBytes(args[1], "Set"))
			return e.nilErr()
		case "Delete":
			e.storeDelete(mo.st, e.asBytes(args[0], "Delete"))
			return e.nilErr()
		case "Iterator", "ReverseIterator":
			it := e.makeIterator(mo.st, nil, e.asBytes(args[0], "it"), e.asBytes(args[1], "it"), name == "ReverseIterator")
			return TupleV{&IfaceV{t: modelDynType, v: it}, e.nilErr()}
		}
	case "kvstore", "prefixstore": // cosmossdk.io/store/types.KVStore
		switch name {
		case "Get":
			k := e.asBytes(args[0], "Get")
			if mo.prefix != nil {
				e.panicIf(k.isNil, "nil key on Store")
			}
			return e.storeGet(mo.st, e.fullKey(mo, k))
		case "Has":
			k := e.asBytes(args[0], "Has")
			if mo.prefix != nil {
				e.panicIf(k.isNil, "nil key on Store")
			}
			v := e.storeGet(mo.st, e.fullKey(mo, k))
			return tb.Not(v.isNil)
		case "Set":
			k := e.asBytes(args[0], "Set")
			if mo.prefix != nil {
				e.panicIf(k.isNil, "nil key on Store")
			}
			e.storeSet(mo.st, e.fullKey(mo, k), e.asBytes(args[1], "Set"))
			return nil
		case "Delete":
			k := e.asBytes(args[0], "Delete")
			if mo.prefix != nil {
				e.panicIf(k.isNil, "nil key on Store")
			}
			e.storeDelete(mo.st, e.fullKey(mo, k))
			return nil
		case "Iterator", "ReverseIterator":
			it := e.makeIterator(mo.st, mo.prefix, e.asBytes(args[0], "it"), e.asBytes(args[1], "it"), name == "ReverseIterator")
			return &IfaceV{t: modelDynType, v: it}
		}
	case "iter":
		switch name {
		case "Valid":
			return tb.Bool(mo.pos < len(mo.items))
		case "Next":
			if mo.pos >= len(mo.items) {
				e.goPanicNow("iterator Next on invalid iterator")
			}
			mo.pos++
			return nil
		case "Key":
			if mo.pos >= len(mo.items) {
				e.goPanicNow("iterator Key on invalid iterator")
			}
			return e.snapshotBytes(mo.items[mo.pos].key)
		case "Value":
			if mo.pos >= len(mo.items) {
				e.goPanicNow("iterator Value on invalid iterator")
			}
			return e.snapshotBytes(mo.items[mo.pos].val)
		case "Close":
			return e.nilErr()
		case "Error":
			return e.nilErr()
		}
	case "codec":
		return e.codecMethod(name, args)
	case "ctx":
		switch name {
		case "EventManager":
			return &IfaceV{t: modelDynType, v: &ModelObj{kind: "eventmanager", env: mo.env, st: mo.st}}
		case "Value", "Deadline", "Done", "Err":
			e.fail("context method %s", name)
		case "Logger":
			return &IfaceV{t: modelDynType, v: &ModelObj{kind: "logger"}}
		case "BlockTime", "BlockHeight", "BlockHeader", "HeaderInfo":
			// deterministic chain state, but not modelled: report
			e.fail("context method %s not modelled", name)
		}
	case "eventmanager":
		switch name {
		case "EmitTypedEvent":
			return e.emitTypedEventTo(mo, args[0])
		case "EmitEvent", "EmitEvents", "EmitTypedEvents":
			e.fail("untyped event emission not modelled")
		}
	case "logger":
		switch name {
		case "With":
			return &IfaceV{t: modelDynType, v: mo}
		case "Info", "Error", "Debug", "Warn":
			return nil
		}
	}
	e.fail("model object %s has no method %s", mo.kind, name)
	return nil
}

// ctxModel finds the modelled sdk.Context behind a context value (nil if it is something else).
func ctxModel(v Value) *ModelObj {
	switch x := v.(type) {
	case *ModelObj:
		if x.kind == "ctx" {
			return x
		}
	case *IfaceV:
		if x.t != nil {
			return ctxModel(x.v)
		}
	}
	return nil
}

// cacheContext: sdk.Context.CacheContext. The branch has its own store layer and its own event
// manager; the returned function emits the branch's events on the parent and writes the layer.
func (e *Exec) cacheContext(c *ModelObj) Value {
	parent := c.st
	if parent == nil {
		parent = c.env.stores[0]
	}
	child := &StoreState{parent: parent, name: parent.name + "/branch"}
	cc := &ModelObj{kind: "ctx", env: c.env, st: child, data: map[string]Value{}}
	return TupleV{cc, &FuncV{intrinsic: "ctx.writeCache", recv: cc}}
}

func (e *Exec) writeCache(cc *ModelObj) {
	env := cc.env
	if env.branchEvents != nil {
		evs := env.branchEvents[cc.st]
		delete(env.branchEvents, cc.st)
		for _, ev := range evs {
			if p := cc.st.parent; p.parent != nil {
				env.branchEvents[p] = append(env.branchEvents[p], ev)
			} else {
				env.events = append(env.events, ev)
			}
		}
	}
	cc.st.commit()
}

// emitTypedEventTo: events of a branch context are buffered until the branch is written.
func (e *Exec) emitTypedEventTo(em *ModelObj, arg Value) Value {
	env := em.env
	if em.st == nil || em.st.parent == nil {
		return e.emitTypedEvent(env, arg)
	}
	n := len(env.events)
	r := e.emitTypedEvent(env, arg)
	if len(env.events) > n {
		if env.branchEvents == nil {
			env.branchEvents = map[*StoreState][]Value{}
		}
		env.branchEvents[em.st] = append(env.branchEvents[em.st], env.events[n:]...)
		env.events = env.events[:n]
	}
	return r
}

func (e *Exec) emitTypedEvent(env *EnvState, arg Value) Value {
	if env == nil {
		e.fail("event manager without environment")
	}
	iv, ok := arg.(*IfaceV)
	if !ok || iv.t == nil {
		e.fail("EmitTypedEvent(nil)")
	}
	p, ok := iv.v.(*PtrV)
	if !ok || p.c == nil {
		e.fail("EmitTypedEvent of %T", iv.v)
	}
	// deep copy of the event struct, byte contents included
	cl := newCloner(false)
	cp := cl.val(p.c.v)
	if env.eventsMayFail {
		k := e.choice(2, "eventErr")
		if k == 1 {
			env.eventErrs++
			return e.errIface(&ErrObj{name: "event-emit-failure"})
		}
	}
	env.events = append(env.events, &IfaceV{t: iv.t, v: &PtrV{c: &Cell{v: cp}}})
	return e.nilErr()
}

func (e *Exec) codecMethod(name string, args []Value) Value {
	tb := e.tb
	getStruct := func(v Value) (*PtrV, *StructV) {
		iv, ok := v.(*IfaceV)
		if !ok || iv.t == nil {
			e.fail("codec: nil message")
		}
		p, ok := iv.v.(*PtrV)
		if !ok {
			e.fail("codec: message is %T", iv.v)
		}
		if p.c == nil {
			e.goPanicNow("codec: nil message pointer")
		}
		sv, ok := p.c.v.(*StructV)
		if !ok {
			e.fail("codec: message pointee %T", p.c.v)
		}
		return p, sv
	}
	switch name {
	case "MustMarshal", "Marshal":
		_, sv := getStruct(args[0])
		cl := newCloner(false)
		e.allocSeq++
		l := tb.Sym(e.W.fresh("bloblen"), 64)
		e.addPC(tb.UleRaw(l, tb.BV(1<<20, 64)))
		tb.DeclareUB(l, 1<<20)
		blob := &SliceV{len: l, gocap: l, isNil: tb.ff, blob: cl.val(sv)}
		if name == "Marshal" {
			return TupleV{blob, e.nilErr()}
		}
		return blob
	case "MustUnmarshal", "Unmarshal":
		bz := e.asBytes(args[0], "Unmarshal")
		p, sv := getStruct(args[1])
		if bz.blob != nil {
			src, ok := bz.blob.(*StructV)
			if !ok || len(src.f) != len(sv.f) {
				e.fail("codec: decoding blob of a different message type")
			}
			cl := newCloner(false)
			p.c.v = cl.val(src)
		} else {
			// only the empty encoding is understood for raw bytes: it decodes to the zero message
			if e.branch(tb.Not(tb.Eq(bz.len, tb.BV(0, 64)))) {
				e.fail("codec: decoding raw (non-module-written) bytes")
			}
			// Unmarshal resets the message
			for i := range sv.f {
				sv.f[i].v = e.zeroLike(sv.f[i].v)
			}
		}
		if name == "Unmarshal" {
			return e.nilErr()
		}
		return nil
	}
	e.fail("codec method %s", name)
	return nil
}

// zeroLike resets a value to the zero value of its shape.
func (e *Exec) zeroLike(v Value) Value {
	tb := e.tb
	switch x := v.(type) {
	case *Term:
		if x.w == 0 {
			return tb.ff
		}
		return tb.BV(0, x.w)
	case *SliceV:
		if x.isStr {
			return e.constBytes("", true)
		}
		return &SliceV{len: tb.BV(0, 64), gocap: tb.BV(0, 64), isNil: tb.tt}
	case *GSliceV:
		return &GSliceV{isNil: true}
	case *StructV:
		n := &StructV{}
		for _, c := range x.f {
			n.f = append(n.f, &Cell{v: e.zeroLike(c.v)})
		}
		return n
	case *PtrV:
		return &PtrV{}
	case *IfaceV:
		return &IfaceV{}
	}
	e.fail("zeroLike %T", v)
	return nil
}
