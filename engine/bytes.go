package main

// Byte strings: bounded vectors of 8-bit terms with a symbolic 64-bit length.

import (
	"go/types"
	"strings"

	"golang.org/x/tools/go/ssa"
)

// reprCap is the number of byte positions of s that are represented.
func (e *Exec) reprCap(s *SliceV) int {
	if s.a == nil {
		return 0
	}
	n := len(s.a.b) - s.off
	if n < 0 {
		n = 0
	}
	if s.len.isConst() {
		if l := s.len.c; l.IsInt64() && int(l.Int64()) < n {
			n = int(l.Int64())
		}
	} else {
		if s.len.ub >= 0 && int(s.len.ub) < n {
			n = int(s.len.ub)
		}
		if s.hasMax && s.maxLen < n {
			n = s.maxLen
		}
	}
	if n < 0 {
		n = 0
	}
	return n
}

func (s *SliceV) withMax(n int) *SliceV {
	s.maxLen, s.hasMax = n, true
	return s
}

// boundOf gives a path-local upper bound for a length-like term (-1: none). It is only used to size
// representations, always under a feasibility guard.
func (e *Exec) boundOf(t *Term) int64 {
	if t.isConst() {
		if t.c.IsInt64() {
			return t.c.Int64()
		}
		return -1
	}
	if b, ok := e.lenBounds[t.id]; ok {
		return b
	}
	if t.ub >= 0 {
		return t.ub
	}
	switch t.op {
	case "bvadd":
		if len(t.args) == 2 && t.args[1].isConst() {
			b := e.boundOf(t.args[0])
			k := signedBig(t.args[1].c, t.w)
			if b >= 0 && k.IsInt64() {
				if v := b + k.Int64(); v >= 0 {
					return v
				}
				return 0
			}
		}
		if len(t.args) == 2 {
			a, b := e.boundOf(t.args[0]), e.boundOf(t.args[1])
			if a >= 0 && b >= 0 {
				return a + b
			}
		}
	case "bvsub":
		return e.boundOf(t.args[0])
	case "ite":
		a, b := e.boundOf(t.args[1]), e.boundOf(t.args[2])
		if a >= 0 && b >= 0 {
			if a > b {
				return a
			}
			return b
		}
	case "zero_extend":
		return e.boundOf(t.args[0])
	}
	return -1
}

func (e *Exec) byteAt(s *SliceV, i int) *Term {
	if s.a == nil || s.off+i >= len(s.a.b) || i < 0 {
		return e.tb.BV(0, 8)
	}
	if e.trackAcc && s.a.global {
		e.noteGlobalRead(s.a)
	}
	return s.a.b[s.off+i]
}

// byteAtSym reads s[i] for a symbolic in-range index.
func (e *Exec) byteAtSym(s *SliceV, i *Term) *Term {
	if i.isConst() {
		return e.byteAt(s, int(i.i64()))
	}
	n := e.reprCap(s)
	res := e.tb.BV(0, 8)
	for k := n - 1; k >= 0; k-- {
		res = e.tb.Ite(e.tb.Eq(i, e.tb.BV(int64(k), i.w)), e.byteAt(s, k), res)
	}
	return res
}

func (e *Exec) concreteString(s *SliceV) (string, bool) {
	if !s.len.isConst() {
		return "", false
	}
	var sb strings.Builder
	for i := 0; i < int(s.len.i64()); i++ {
		b := e.byteAt(s, i)
		if !b.isConst() {
			return "", false
		}
		sb.WriteByte(byte(b.i64()))
	}
	return sb.String(), true
}

func (e *Exec) mustString(v Value, what string) string {
	s, ok := v.(*SliceV)
	if !ok {
		e.fail("%s: not a string (%T)", what, v)
	}
	str, ok := e.concreteString(s)
	if !ok {
		e.fail("%s: string must be concrete", what)
	}
	return str
}

func (e *Exec) bytesEqual(a, b *SliceV) *Term {
	tb := e.tb
	if a.blob != nil || b.blob != nil {
		if a.blob != nil && b.blob != nil {
			return e.valEq(a.blob, b.blob)
		}
		// an encoding compared with raw bytes: the empty encoding (zero message) equals the empty
		// string; otherwise they are treated as different (raw bytes in the module store are role
		// strings, never stored under the key of an encoded entry)
		blob, raw := a, b
		if a.blob == nil {
			blob, raw = b, a
		}
		e.events = append(e.events, "note: encoded value compared with raw bytes")
		return tb.And(tb.Eq(raw.len, tb.BV(0, 64)), e.isZeroVal(blob.blob))
	}
	conj := []*Term{tb.Eq(a.len, b.len)}
	if conj[0].isFalse() {
		return tb.ff
	}
	n := e.reprCap(a)
	if m := e.reprCap(b); m < n {
		n = m
	}
	mn := a.minLen
	if b.minLen < mn {
		mn = b.minLen
	}
	for i := 0; i < n; i++ {
		eq := tb.Eq(e.byteAt(a, i), e.byteAt(b, i))
		if i < mn {
			if eq.isFalse() {
				return tb.ff
			}
			conj = append(conj, eq)
		} else {
			conj = append(conj, tb.Implies(tb.Ult(tb.BV(int64(i), 64), a.len), eq))
		}
	}
	return tb.And(conj...)
}

// bytesLess: lexicographic a < b.
func (e *Exec) bytesLess(a, b *SliceV) *Term {
	tb := e.tb
	na, nb := e.reprCap(a), e.reprCap(b)
	n := na
	if nb > n {
		n = nb
	}
	// beyond all represented positions: a is exhausted first iff la < lb
	res := tb.Ult(a.len, b.len)
	for i := n - 1; i >= 0; i-- {
		I := tb.BV(int64(i), 64)
		aEnd := tb.Not(tb.Ult(I, a.len))
		bEnd := tb.Not(tb.Ult(I, b.len))
		x, y := e.byteAt(a, i), e.byteAt(b, i)
		inner := tb.Ite(tb.Ult(x, y), tb.tt, tb.Ite(tb.Ult(y, x), tb.ff, res))
		res = tb.Ite(aEnd, tb.Not(bEnd), tb.Ite(bEnd, tb.ff, inner))
	}
	return res
}

// bytesCompare returns -1/0/+1 as a 64-bit term.
func (e *Exec) bytesCompare(a, b *SliceV) *Term {
	tb := e.tb
	return tb.Ite(e.bytesLess(a, b), tb.BV(-1, 64), tb.Ite(e.bytesEqual(a, b), tb.BV(0, 64), tb.BV(1, 64)))
}

func (e *Exec) hasPrefix(s, p *SliceV) *Term {
	tb := e.tb
	conj := []*Term{tb.Ule(p.len, s.len)}
	n := e.reprCap(p)
	for i := 0; i < n; i++ {
		eq := tb.Eq(e.byteAt(s, i), e.byteAt(p, i))
		if i < p.minLen {
			conj = append(conj, eq)
		} else {
			conj = append(conj, tb.Implies(tb.Ult(tb.BV(int64(i), 64), p.len), eq))
		}
	}
	return tb.And(conj...)
}

// concatBytes builds a fresh allocation holding a ++ b.
func (e *Exec) concatBytes(a, b *SliceV, isStr bool) *SliceV {
	tb := e.tb
	if a.blob != nil || b.blob != nil {
		e.fail("append/concat on an encoded blob")
	}
	na, nb := e.reprCap(a), e.reprCap(b)
	out := &Alloc{}
	if a.len.isConst() {
		la := int(a.len.i64())
		for i := 0; i < la; i++ {
			out.b = append(out.b, e.byteAt(a, i))
		}
		for i := 0; i < nb; i++ {
			out.b = append(out.b, e.byteAt(b, i))
		}
	} else {
		// result[i] = i < la ? a[i] : b[i-la]
		for i := 0; i < na+nb; i++ {
			I := tb.BV(int64(i), 64)
			fromB := tb.BV(0, 8)
			for j := nb - 1; j >= 0; j-- {
				if i-j < 0 || i-j > na {
					continue
				}
				fromB = tb.Ite(tb.Eq(a.len, tb.BV(int64(i-j), 64)), e.byteAt(b, j), fromB)
			}
			if i < na {
				out.b = append(out.b, tb.Ite(tb.Ult(I, a.len), e.byteAt(a, i), fromB))
			} else {
				out.b = append(out.b, fromB)
			}
		}
	}
	l := tb.Add(a.len, b.len)
	r := &SliceV{a: out, len: l, gocap: l, isStr: isStr, isNil: tb.And(a.isNil, tb.Eq(b.len, tb.BV(0, 64))), minLen: a.minLen + b.minLen}
	return r.withMax(len(out.b))
}

func (e *Exec) copyBytes(dv, sv Value) Value {
	tb := e.tb
	d, ok := dv.(*SliceV)
	if !ok {
		e.fail("copy into %T", dv)
	}
	s, ok := sv.(*SliceV)
	if !ok {
		e.fail("copy from %T", sv)
	}
	if s.blob != nil || d.blob != nil {
		e.fail("copy of an encoded blob")
	}
	n := tb.Ite(tb.Ult(d.len, s.len), d.len, s.len)
	m := e.reprCap(d)
	if k := e.reprCap(s); k < m {
		m = k
	}
	if m > 0 && d.a.global {
		e.noteGlobalWrite("copy", d.a)
	}
	// read all source bytes first (overlapping copies)
	src := make([]*Term, m)
	for i := 0; i < m; i++ {
		src[i] = e.byteAt(s, i)
	}
	for i := 0; i < m; i++ {
		d.a.b[d.off+i] = tb.Ite(tb.Ult(tb.BV(int64(i), 64), n), src[i], d.a.b[d.off+i])
	}
	return n
}

func (e *Exec) makeSlice(fr *Frame, in *ssa.MakeSlice) Value {
	tb := e.tb
	n := tb.Resize(e.get(fr, in.Len).(*Term), 64, isSigned(in.Len.Type()))
	et := in.Type().Underlying().(*types.Slice).Elem()
	var cp0 *Term
	if in.Cap != nil {
		cp0 = tb.Resize(e.get(fr, in.Cap).(*Term), 64, isSigned(in.Cap.Type()))
		// runtime.makeslice: the capacity (as an int) must be non-negative, at least the length, and
		// cap*elemsize must not exceed the address space (maxAlloc = 2^48 on linux/amd64)
		if !cp0.isConst() || !n.isConst() {
			esz := stdSizes.Sizeof(et)
			if esz < 1 {
				esz = 1
			}
			e.panicIf(tb.Or(tb.Slt(cp0, tb.BV(0, 64)), tb.Not(tb.Sle(cp0, tb.BV((int64(1)<<48)/esz, 64)))), "makeslice: cap out of range")
			e.panicIf(tb.Or(tb.Slt(n, tb.BV(0, 64)), tb.Not(tb.Sle(n, cp0))), "makeslice: len out of range")
		}
	}
	if !isByteType(et) {
		if !n.isConst() {
			if isSigned(in.Len.Type()) {
				e.panicIf(tb.Slt(n, tb.BV(0, 64)), "makeslice: len out of range")
			}
			// bound: symbolic lengths of element slices up to 64 are enumerated
			if e.branch(tb.Not(tb.Ule(n, tb.BV(64, 64)))) {
				e.fail("make of non-byte slice with symbolic length above 64")
			}
			n = tb.BV(int64(e.concretize(n, 64, "make length")), 64)
		}
		g := &GSliceV{}
		for i := int64(0); i < n.i64(); i++ {
			g.e = append(g.e, &Cell{v: e.zero(et)})
		}
		if cp0 != nil {
			if cp0.isConst() {
				for i := n.i64(); i < cp0.i64(); i++ {
					g.spare = append(g.spare, &Cell{v: e.zero(et)})
				}
			} else {
				g.capUnknown = true
			}
		}
		return g
	}
	if isSigned(in.Len.Type()) && !n.isConst() {
		e.panicIf(tb.Slt(n, tb.BV(0, 64)), "makeslice: len out of range")
	}
	cp := e.boundOf(n)
	if cp < 0 || cp > 1<<16 {
		e.fail("make([]byte, n): no bound known for n")
	}
	if !n.isConst() {
		// the bound is a path-local estimate: make sure the length cannot exceed the representation
		if e.branch(tb.Not(tb.Ule(n, tb.BV(cp, 64)))) {
			e.fail("make([]byte, n): representation bound %d exceeded", cp)
		}
	}
	a := &Alloc{global: e.inInit}
	z := tb.BV(0, 8)
	for i := int64(0); i < cp; i++ {
		a.b = append(a.b, z)
	}
	ml := 0
	if n.isConst() {
		ml = int(n.i64())
	}
	return (&SliceV{a: a, len: n, gocap: n, isNil: tb.ff, minLen: ml}).withMax(int(cp))
}

func (e *Exec) indexAddr(fr *Frame, in *ssa.IndexAddr) Value {
	tb := e.tb
	x := e.get(fr, in.X)
	idx := tb.Resize(e.get(fr, in.Index).(*Term), 64, isSigned(in.Index.Type()))
	switch s := x.(type) {
	case *SliceV:
		e.panicIf(tb.Not(tb.Ult(idx, s.len)), "index out of range")
		i := e.concretize(idx, e.reprCap(s), "byte index")
		if s.a == nil || s.off+i >= len(s.a.b) {
			e.fail("index beyond representation")
		}
		return &BytePtrV{s.a, s.off + i}
	case *PtrV:
		if s.c == nil {
			e.goPanicNow("nil pointer dereference")
		}
		switch arr := s.c.v.(type) {
		case *ByteArrV:
			e.panicIf(tb.Not(tb.Ult(idx, tb.BV(int64(len(arr.a.b)), 64))), "index out of range")
			i := e.concretize(idx, len(arr.a.b)-1, "array index")
			if s.c.global {
				arr.a.global = true
			}
			return &BytePtrV{arr.a, i}
		case *ArrayV:
			e.panicIf(tb.Not(tb.Ult(idx, tb.BV(int64(len(arr.e)), 64))), "index out of range")
			i := e.concretize(idx, len(arr.e)-1, "array index")
			return &PtrV{arr.e[i]}
		}
		e.fail("indexaddr into pointer to %T", s.c.v)
	case *GSliceV:
		e.panicIf(tb.Not(tb.Ult(idx, tb.BV(int64(len(s.e)), 64))), "index out of range")
		i := e.concretize(idx, len(s.e)-1, "slice index")
		return &PtrV{s.e[i]}
	}
	e.fail("indexaddr on %T", x)
	return nil
}

func (e *Exec) index(fr *Frame, in *ssa.Index) Value {
	tb := e.tb
	x := e.get(fr, in.X)
	idx := tb.Resize(e.get(fr, in.Index).(*Term), 64, isSigned(in.Index.Type()))
	switch s := x.(type) {
	case *SliceV: // string
		e.panicIf(tb.Not(tb.Ult(idx, s.len)), "index out of range")
		return e.byteAtSym(s, idx)
	case *ByteArrV:
		e.panicIf(tb.Not(tb.Ult(idx, tb.BV(int64(len(s.a.b)), 64))), "index out of range")
		i := e.concretize(idx, len(s.a.b)-1, "array index")
		return s.a.b[i]
	case *ArrayV:
		e.panicIf(tb.Not(tb.Ult(idx, tb.BV(int64(len(s.e)), 64))), "index out of range")
		i := e.concretize(idx, len(s.e)-1, "array index")
		return copyVal(s.e[i].v)
	}
	e.fail("index on %T", x)
	return nil
}

func (e *Exec) slice(fr *Frame, in *ssa.Slice) Value {
	tb := e.tb
	x := e.get(fr, in.X)
	var lo, hi, mx *Term
	if in.Low != nil {
		lo = tb.Resize(e.get(fr, in.Low).(*Term), 64, isSigned(in.Low.Type()))
	}
	if in.High != nil {
		hi = tb.Resize(e.get(fr, in.High).(*Term), 64, isSigned(in.High.Type()))
	}
	if in.Max != nil {
		mx = tb.Resize(e.get(fr, in.Max).(*Term), 64, isSigned(in.Max.Type()))
	}
	switch s := x.(type) {
	case *SliceV:
		if s.blob != nil {
			e.fail("slicing an encoded blob")
		}
		if lo == nil {
			lo = tb.BV(0, 64)
		}
		if hi == nil {
			hi = s.len
		}
		lim := s.gocap
		if s.isStr {
			lim = s.len
		}
		if mx != nil {
			e.panicIf(tb.Not(tb.And(tb.Ule(lo, hi), tb.Ule(hi, mx), tb.Ule(mx, lim))), "slice bounds out of range")
		} else {
			e.panicIf(tb.Not(tb.And(tb.Ule(lo, hi), tb.Ule(hi, lim))), "slice bounds out of range")
		}
		l := e.concretize(lo, e.reprCapFull(s), "slice low bound")
		nl := tb.Sub(hi, lo)
		// lo <= hi <= limit holds on this path
		var mx2 int
		switch {
		case hi.isConst():
			mx2 = int(hi.i64()) - l
		case hi == s.len || s.isStr:
			mx2 = e.reprCap(s) - l
		default:
			mx2 = e.reprCapFull(s) - l
			if gb := e.boundOf(s.gocap); gb >= 0 && int(gb)-l < mx2 {
				mx2 = int(gb) - l
			}
			if hb := e.boundOf(hi); hb >= 0 && int(hb)-l < mx2 {
				mx2 = int(hb) - l
			}
		}
		if mx2 < 0 {
			mx2 = 0
		}
		gc := tb.Sub(s.gocap, lo)
		if mx != nil {
			gc = tb.Sub(mx, lo)
		}
		ml := s.minLen - l
		if hi.isConst() {
			if int(hi.i64())-l < ml || true {
				ml = int(hi.i64()) - l
			}
		} else if hi != s.len {
			ml = 0
		}
		if ml < 0 {
			ml = 0
		}
		isNil := tb.ff
		if !s.isStr {
			isNil = s.isNil // slicing a nil slice [0:0] stays nil
		}
		return (&SliceV{a: s.a, off: s.off + l, len: nl, gocap: gc, isStr: s.isStr, isNil: isNil, minLen: ml}).withMax(mx2)
	case *PtrV: // pointer to array
		if s.c == nil {
			e.goPanicNow("nil pointer dereference")
		}
		switch arr := s.c.v.(type) {
		case *ByteArrV:
			n := int64(len(arr.a.b))
			if lo == nil {
				lo = tb.BV(0, 64)
			}
			if hi == nil {
				hi = tb.BV(n, 64)
			}
			e.panicIf(tb.Not(tb.And(tb.Ule(lo, hi), tb.Ule(hi, tb.BV(n, 64)))), "slice bounds out of range")
			l := e.concretize(lo, int(n), "slice low bound")
			if s.c.global {
				arr.a.global = true
			}
			ml := 0
			if hi.isConst() {
				ml = int(hi.i64()) - l
			}
			return &SliceV{a: arr.a, off: l, len: tb.Sub(hi, lo), gocap: tb.Sub(tb.BV(n, 64), lo), isNil: tb.ff, minLen: ml}
		case *ArrayV:
			l, h := 0, len(arr.e)
			if lo != nil {
				l = e.concretize(lo, len(arr.e), "slice low")
			}
			if hi != nil {
				h = e.concretize(hi, len(arr.e), "slice high")
			}
			if l > h {
				e.goPanicNow("slice bounds out of range")
			}
			return &GSliceV{e: arr.e[l:h:h], spare: arr.e[h:len(arr.e):len(arr.e)]}
		}
		e.fail("slice of pointer to %T", s.c.v)
	case *GSliceV:
		full := s.full()
		l, h, m := 0, len(s.e), len(full)
		if in.Max != nil {
			mx := tb.Resize(e.get(fr, in.Max).(*Term), 64, isSigned(in.Max.Type()))
			e.panicIf(tb.Not(tb.Ule(mx, tb.BV(int64(len(full)), 64))), "slice bounds out of range")
			m = e.concretize(mx, len(full), "slice max")
		}
		if hi != nil {
			e.panicIf(tb.Not(tb.Ule(hi, tb.BV(int64(m), 64))), "slice bounds out of range")
			h = e.concretize(hi, m, "slice high")
		}
		if lo != nil {
			e.panicIf(tb.Not(tb.Ule(lo, tb.BV(int64(h), 64))), "slice bounds out of range")
			l = e.concretize(lo, h, "slice low")
		}
		if l > h || h > m {
			e.goPanicNow("slice bounds out of range")
		}
		return &GSliceV{e: full[l:h:h], spare: full[h:m:m], isNil: s.isNil && h == 0 && m == 0, capUnknown: s.capUnknown}
	}
	e.fail("slice on %T", x)
	return nil
}

func (e *Exec) reprCapFull(s *SliceV) int {
	if s.a == nil {
		return 0
	}
	return len(s.a.b) - s.off
}

// packBytes packs (len, bytes) into one wide bit-vector of 64+8*capBytes bits with the bytes beyond
// len forced to zero, so that equal byte strings give equal packed terms.
func (e *Exec) packBytes(s *SliceV, capBytes int) *Term {
	tb := e.tb
	if s.blob != nil {
		e.fail("hashing/encoding an encoded blob")
	}
	n := e.reprCap(s)
	if n > capBytes {
		// make sure the real length fits
		if e.branch(tb.Not(tb.Ule(s.len, tb.BV(int64(capBytes), 64)))) {
			e.fail("byte string longer than model capacity %d", capBytes)
		}
		n = capBytes
	}
	parts := []*Term{s.len}
	for i := 0; i < capBytes; i++ {
		if i < n {
			b := e.byteAt(s, i)
			if i >= s.minLen {
				b = tb.Ite(tb.Ult(tb.BV(int64(i), 64), s.len), b, tb.BV(0, 8))
			}
			parts = append(parts, b)
		} else {
			parts = append(parts, tb.BV(0, 8))
		}
	}
	return tb.Concat(parts...)
}

// freshBytes creates a new symbolic byte string value (used for UF results, nondets).
func (e *Exec) bytesFromTerm(t *Term, n int, isStr bool) *SliceV {
	tb := e.tb
	a := &Alloc{}
	for i := 0; i < n; i++ {
		hi := t.w - 1 - 8*i
		a.b = append(a.b, tb.Extract(hi, hi-7, t))
	}
	l := tb.BV(int64(n), 64)
	return &SliceV{a: a, len: l, gocap: l, isStr: isStr, isNil: tb.ff, minLen: n}
}

// isZeroVal: the value is the zero value of its shape (its protobuf encoding is empty).
func (e *Exec) isZeroVal(v Value) *Term {
	tb := e.tb
	switch x := v.(type) {
	case *Term:
		if x.w == 0 {
			return tb.Not(x)
		}
		return tb.Eq(x, tb.BV(0, x.w))
	case *SliceV:
		return tb.Eq(x.len, tb.BV(0, 64))
	case *GSliceV:
		return tb.Bool(len(x.e) == 0)
	case *StructV:
		var cs []*Term
		for _, c := range x.f {
			cs = append(cs, e.isZeroVal(c.v))
		}
		return tb.And(cs...)
	case *PtrV:
		if x.c == nil {
			return tb.tt
		}
		if b, ok := x.c.v.(*BigV); ok {
			return tb.Eq(b.v, tb.BV(0, bigW))
		}
		return tb.ff
	}
	return tb.ff
}

// appendBytes implements append(a, b...) for byte slices with Go's aliasing rule: when the result fits
// into a's capacity it is written in place into a's backing array (visible through every other slice
// of that array), otherwise a fresh array is allocated.
func (e *Exec) appendBytes(a, b *SliceV) *SliceV {
	tb := e.tb
	if a.blob != nil || b.blob != nil {
		e.fail("append on an encoded blob")
	}
	if a.a == nil || a.gocap == a.len {
		// capacity == length: any non-empty append reallocates
		return e.concatBytes(a, b, false)
	}
	fits := tb.Ule(tb.Add(a.len, b.len), a.gocap)
	if !e.branch(fits) {
		return e.concatBytes(a, b, false)
	}
	la := e.concretize(a.len, e.reprCapFull(a), "append destination length")
	nb := e.reprCap(b)
	if a.off+la+nb > len(a.a.b) {
		// the representation of the backing array is shorter than what may be written
		if e.branch(tb.Not(tb.Ule(b.len, tb.BV(int64(len(a.a.b)-a.off-la), 64)))) {
			e.fail("append in place beyond the represented backing array")
		}
		nb = len(a.a.b) - a.off - la
	}
	if nb > 0 && a.a.global {
		e.noteGlobalWrite("append into the backing array of a package-level slice", a.a)
	}
	src := make([]*Term, nb)
	for i := 0; i < nb; i++ {
		src[i] = e.byteAt(b, i)
	}
	for i := 0; i < nb; i++ {
		old := a.a.b[a.off+la+i]
		if i < b.minLen {
			a.a.b[a.off+la+i] = src[i]
		} else {
			a.a.b[a.off+la+i] = tb.Ite(tb.Ult(tb.BV(int64(i), 64), b.len), src[i], old)
		}
	}
	l := tb.Add(tb.BV(int64(la), 64), b.len)
	return (&SliceV{a: a.a, off: a.off, len: l, gocap: a.gocap, isNil: tb.ff, minLen: la + b.minLen}).withMax(la + nb)
}
