package main

// symgo check <ID> <tier>: decide one property and write evidence/<ID>.json.
//
// exit 0: every assertion of every harness of the property is unsat-proved within the bounds, no
//         vacuity, translator validation clean (KNOWN-FINDING lines may be printed)
// exit 1: a violation reproduced natively and not listed in known_findings.txt (VIOLATION line)
// exit 2: inconclusive (unsupported construct, solver unknown, unwinding bound, vacuous harness,
//         counterexample that does not reproduce) -- never a VIOLATION line

import (
	"encoding/json"
	"fmt"
	"os"
	"path/filepath"
	"regexp"
	"runtime"
	"sort"
	"strings"
	"sync"
	"time"

	"golang.org/x/tools/go/ssa"
)

type knownFinding struct {
	Property string
	Label    string
	Text     string
}

func loadKnownFindings() []knownFinding {
	b, err := os.ReadFile(filepath.Join(verifDir, "known_findings.txt"))
	if err != nil {
		return nil
	}
	var out []knownFinding
	re := regexp.MustCompile(`^finding:\s+property=(\S+)\s+label=(\S+)\s*(.*)$`)
	for _, l := range strings.Split(string(b), "\n") {
		if m := re.FindStringSubmatch(strings.TrimSpace(l)); m != nil {
			out = append(out, knownFinding{m[1], m[2], m[3]})
		}
	}
	return out
}

// staticLabels finds the constant first arguments of verifrt.Assert / verifrt.Cover calls reachable
// from fn through functions of the same package (harness helpers).
func staticLabels(fn *ssa.Function) (asserts, covers map[string]bool) {
	asserts, covers = map[string]bool{}, map[string]bool{}
	seen := map[*ssa.Function]bool{}
	var visit func(f *ssa.Function)
	visit = func(f *ssa.Function) {
		if f == nil || seen[f] || f.Blocks == nil {
			return
		}
		seen[f] = true
		for _, af := range f.AnonFuncs {
			visit(af)
		}
		for _, b := range f.Blocks {
			for _, ins := range b.Instrs {
				c, ok := ins.(ssa.CallInstruction)
				if !ok {
					continue
				}
				callee := c.Common().StaticCallee()
				if callee == nil {
					continue
				}
				name := callee.String()
				if name == rtPkg+"Assert" || name == rtPkg+"Cover" {
					if k, ok := c.Common().Args[0].(*ssa.Const); ok && k.Value != nil {
						s := strings.Trim(k.Value.ExactString(), `"`)
						if name == rtPkg+"Assert" {
							asserts[s] = true
						} else {
							covers[s] = true
						}
					}
					continue
				}
				if callee.Pkg == fn.Pkg && strings.Contains(filepath.Base(callee.Prog.Fset.Position(callee.Pos()).Filename), "zz_verif_") {
					visit(callee)
				}
			}
		}
	}
	visit(fn)
	return
}

func sanitize(s string) string {
	return regexp.MustCompile(`[^A-Za-z0-9_.-]+`).ReplaceAllString(s, "_")
}

type harnessEvidence struct {
	Name         string         `json:"harness"`
	Paths        int            `json:"paths"`
	Ends         map[string]int `json:"path_ends"`
	Queries      int            `json:"queries"`
	Unsat        int            `json:"queries_unsat"`
	Sat          int            `json:"queries_sat"`
	Unknown      int            `json:"queries_unknown"`
	SolverS      float64        `json:"solver_time_s"`
	WallS        float64        `json:"wall_s"`
	Steps        int            `json:"ssa_steps"`
	Proved       map[string]int `json:"assertions_proved"`
	Violated     map[string]int `json:"assertions_violated,omitempty"`
	Covers       map[string]int `json:"covers"`
	Inconclusive string         `json:"inconclusive,omitempty"`
	XSolver      string         `json:"cross_solver,omitempty"`
}

func cmdCheck(id, tierName string) int {
	t0 := time.Now()
	tier := 0
	if tierName == "thorough" {
		raceWitnesses = true
		tier = 1
	} else if tierName != "quick" {
		fmt.Fprintln(os.Stderr, "tier must be quick or thorough")
		return 2
	}
	seed := int64(envInt("VERIF_SEED", 1))
	dirs := dirsForProperty(id)
	if len(dirs) == 0 {
		fmt.Fprintf(os.Stderr, "no harness for property %s\n", id)
		return 2
	}
	outDir := filepath.Join(outBase, id)
	os.RemoveAll(outDir)
	os.MkdirAll(filepath.Join(outDir, "replay"), 0o755)
	inconclusive := []string{}
	P, err := loadProgram(dirs)
	if err != nil {
		fmt.Println("INCONCLUSIVE: cannot load /repo with the harness overlay:", err)
		return 2
	}
	var hs []harnessRef
	for _, h := range findHarnesses(P, dirs) {
		if h.prop != id {
			continue
		}
		if h.thoroughOnly && tier == 0 {
			continue
		}
		hs = append(hs, h)
	}
	if only := os.Getenv("SYMGO_ONLY"); only != "" {
		var f []harnessRef
		for _, h := range hs {
			if strings.Contains(h.name, only) {
				f = append(f, h)
			}
		}
		hs = f
	}
	fmt.Printf("property %s tier %s: %d harnesses, load+build %.1fs\n", id, tierName, len(hs), P.loadSecs)

	// run harnesses, a few at a time
	ncpu := runtime.NumCPU()
	conc := 4
	if len(hs) < conc {
		conc = len(hs)
	}
	if conc < 1 {
		conc = 1
	}
	// every harness may use all cores; the number of solver queries in flight is bounded globally
	perWorkers := ncpu
	timeout := 60000
	maxPaths := envInt("SYMGO_MAXPATHS", 60000)
	witnessEvery := 4
	if tier == 1 {
		timeout = 300000
		maxPaths = envInt("SYMGO_MAXPATHS", 400000)
		witnessEvery = 1
	}
	results := make([]*HarnessResult, len(hs))
	sem := make(chan bool, conc)
	var wg sync.WaitGroup
	for i := range hs {
		wg.Add(1)
		go func(i int) {
			defer wg.Done()
			sem <- true
			defer func() { <-sem }()
			results[i] = explore(P, hs[i].fn, ExploreOpts{Workers: perWorkers, Unwind: envInt("SYMGO_UNWIND", 400), MaxPaths: maxPaths,
				TimeoutMs: timeout, Tier: tier, WitnessEvery: witnessEvery, Seed: seed, SolverKind: "z3"})
		}(i)
	}
	wg.Wait()

	known := loadKnownFindings()
	isKnown := func(label string) *knownFinding {
		for i := range known {
			if known[i].Property == id && known[i].Label == label {
				return &known[i]
			}
		}
		return nil
	}

	var hev []harnessEvidence
	staticAsserts, reachedAsserts := map[string]bool{}, map[string]bool{}
	totalPaths, totalQueries := 0, 0
	var solverS float64
	funcs := map[string]bool{}
	var samples []interface{}
	type pendingReplay struct {
		file      string
		hi        int
		label     string
		violation bool
	}
	var replays []pendingReplay
	replayByDir := map[string][]string{}
	events := map[string]bool{}
	for i, res := range results {
		h := hs[i]
		printResult(res, false)
		totalPaths += res.Paths
		totalQueries += res.Queries
		solverS += res.SolverSecs
		for f := range res.Funcs {
			funcs[f] = true
		}
		for ev := range res.Events {
			events[ev] = true
		}
		ev := harnessEvidence{Name: res.Name, Paths: res.Paths, Ends: res.Ends, Queries: res.Queries, Unsat: res.Unsat, Sat: res.Sat,
			Unknown: res.UnknownQ, SolverS: round3(res.SolverSecs), WallS: round3(res.WallSecs), Steps: res.Steps, Proved: res.Proved, Violated: res.Violated,
			Covers: res.Covers, Inconclusive: res.Err}
		if res.Err != "" {
			inconclusive = append(inconclusive, res.Name+": "+res.Err)
		}
		if res.UnknownQ > 0 || len(res.Unknown) > 0 {
			inconclusive = append(inconclusive, fmt.Sprintf("%s: %d solver unknowns", res.Name, res.UnknownQ))
		}
		// vacuity: every Assert and Cover label present in the harness must have been reached
		wantA, wantC := staticLabels(h.fn)
		if res.Err == "" {
			otherProp := regexp.MustCompile(`^C[0-9]+/`)
			for l := range wantA {
				if strings.HasPrefix(l, id+"/") {
					staticAsserts[l] = true // shared lemma code: only this property's obligations are required
				}
			}
			for l, n := range res.Proved {
				if n > 0 {
					reachedAsserts[l] = true
				}
			}
			for l, n := range res.Violated {
				if n > 0 {
					reachedAsserts[l] = true
				}
			}
			for l := range wantC {
				if otherProp.MatchString(l) && !strings.HasPrefix(l, id+"/") {
					continue
				}
				if res.Covers[l] == 0 {
					inconclusive = append(inconclusive, fmt.Sprintf("%s: cover point %s unreachable (vacuous)", res.Name, l))
				}
			}
		}
		// violations -> replay files (up to 2 witnesses per label)
		perLabel := map[string]int{}
		for _, v := range res.Violations {
			perLabel[v.Label]++
			if perLabel[v.Label] > 2 || v.Witness == nil {
				continue
			}
			rf := replayFile{Harness: res.Name, Label: v.Label, Values: stripProbes(v.Witness), Probes: onlyProbes(v.Witness), Note: v.Site, Dir: h.dir}
			path := filepath.Join(outDir, "replay", fmt.Sprintf("%s.%s.%d.json", res.Name, sanitize(v.Label), perLabel[v.Label]))
			writeReplay(path, &rf, tier)
			replays = append(replays, pendingReplay{file: path, hi: i, label: v.Label, violation: true})
			replayByDir[h.dir] = append(replayByDir[h.dir], path)
		}
		// path witnesses -> translator validation
		for k, w := range res.Witnesses {
			if tier == 0 && k >= 12 {
				break
			}
			if tier == 1 && k >= 80 {
				break
			}
			rf := replayFile{Harness: res.Name, Label: "", Values: stripProbes(w.Witness), Probes: onlyProbes(w.Witness), Note: "path witness " + w.ID + " " + w.End, Dir: h.dir}
			path := filepath.Join(outDir, "replay", fmt.Sprintf("%s.witness.%s.json", res.Name, w.ID))
			writeReplay(path, &rf, tier)
			replays = append(replays, pendingReplay{file: path, hi: i, label: "", violation: false})
			replayByDir[h.dir] = append(replayByDir[h.dir], path)
		}
		for _, s := range res.Samples {
			if len(samples) < 12 {
				samples = append(samples, map[string]interface{}{"harness": res.Name, "path": s})
			}
		}
		hev = append(hev, ev)
	}

	// vacuity: every obligation of this property written in a harness must be reached by some harness
	if !containsSub(inconclusive, ": ") || true {
		allClean := true
		for _, r := range results {
			if r.Err != "" {
				allClean = false
			}
		}
		if allClean {
			for l := range staticAsserts {
				if !reachedAsserts[l] {
					inconclusive = append(inconclusive, fmt.Sprintf("assertion %s is never reached by any harness (vacuous)", l))
				}
			}
		}
	}

	// native replays
	outcomes := map[string]*replayOutcome{}
	for dir, files := range replayByDir {
		res, out, err := runReplays(dir, files)
		if err != nil {
			inconclusive = append(inconclusive, "native replay failed: "+err.Error())
			fmt.Println(tailLines(out, 30))
		}
		for f, o := range res {
			outcomes[f] = o
		}
	}
	violationsReported := 0
	knownHit := []string{}
	validated := 0
	reported := map[string]bool{}
	reproduced := map[string]bool{}
	notReproduced := map[string]string{}
	for _, r := range replays {
		o := outcomes[r.file]
		key := hs[r.hi].name + "|" + r.label
		if r.violation {
			ok := false
			if o != nil {
				if r.label == "uncaught-panic" {
					ok = o.Panic != ""
				} else {
					for _, l := range o.FailedAsserts {
						if l == r.label {
							ok = true
						}
					}
				}
			}
			if ok {
				reproduced[key] = true
				if !reported[key] {
					reported[key] = true
					if kf := isKnown(r.label); kf != nil {
						fmt.Printf("KNOWN-FINDING: property=%s %s (%s) replay=%s\n", id, r.label, kf.Text, r.file)
						knownHit = append(knownHit, r.label)
					} else {
						fmt.Printf("VIOLATION property=%s replay=%s\n", id, r.file)
						fmt.Printf("   assertion %s of %s fails natively\n", r.label, hs[r.hi].name)
						violationsReported++
					}
				}
			} else {
				why := "no outcome"
				if o != nil {
					js, _ := json.Marshal(o)
					why = string(js)
					if len(why) > 400 {
						why = why[:400]
					}
				}
				notReproduced[key] = r.file + ": " + why
			}
		} else {
			// translator validation: a path witness must run natively without failed assertions,
			// without missing values, and with matching probes
			if o == nil {
				inconclusive = append(inconclusive, "ENGINE-MISMATCH: no native outcome for "+r.file)
				continue
			}
			if o.AssumeFailed {
				// model values of uninterpreted functions (hashes, bech32) need not satisfy native assumptions
				continue
			}
			bad := ""
			if len(o.FailedAsserts) > 0 && !allKnownOrViolated(o.FailedAsserts, results[r.hi]) {
				bad = "native run fails assertions " + strings.Join(o.FailedAsserts, ",")
			}
			rf := readReplay(r.file)
			for k, want := range rf.Probes {
				if got, ok := o.Probes[k]; ok && got != want {
					bad = fmt.Sprintf("probe %s: engine %s native %s", k, want, got)
				}
			}
			if bad != "" {
				inconclusive = append(inconclusive, "ENGINE-MISMATCH: "+r.file+": "+bad)
			} else {
				validated++
			}
		}
	}
	for key, why := range notReproduced {
		if !reproduced[key] {
			inconclusive = append(inconclusive, "counterexample does not reproduce natively ("+key+"): "+why)
		}
	}

	// cross-solver agreement (thorough): re-decide the cheaper harnesses with z3 5.x and compare
	xs := "not run in this tier"
	if tier == 1 || os.Getenv("SYMGO_XSOLVER") != "" {
		agree, total := 0, 0
		for i, res := range results {
			if res.Err != "" || res.WallSecs > 120 {
				continue
			}
			total++
			r2 := explore(P, hs[i].fn, ExploreOpts{Workers: ncpu, Unwind: envInt("SYMGO_UNWIND", 400), MaxPaths: maxPaths, TimeoutMs: timeout, Tier: tier, SolverKind: "z3-new"})
			if r2.Err == "" && r2.Paths == res.Paths && sameCounts(r2.Proved, res.Proved) && sameCounts(r2.Violated, res.Violated) {
				agree++
				hev[i].XSolver = "z3-new agrees"
			} else {
				hev[i].XSolver = fmt.Sprintf("z3-new DISAGREES: paths %d vs %d err=%q", r2.Paths, res.Paths, r2.Err)
				inconclusive = append(inconclusive, "cross-solver disagreement on "+res.Name+": "+hev[i].XSolver)
			}
		}
		xs = fmt.Sprintf("z3 4.8.12 vs z3 5.1.0: %d/%d harnesses re-decided with identical path sets and verdicts", agree, total)
	}

	// evidence
	var evs []string
	for e := range events {
		evs = append(evs, e)
	}
	sort.Strings(evs)
	cov := map[string]interface{}{
		"states":                        totalPaths,
		"transitions":                   totalQueries,
		"traces_validated_against_impl": validated,
		"samples":                       samples,
		"harnesses":                     hev,
		"functions_encoded":             sortedKeys(funcs),
		"solver":                        "z3 4.8.12 (QF_UFBV, one incremental process per worker)",
		"solver_time_s":                 round3(solverS),
		"cross_solver":                  xs,
		"unwinding_bound":               envInt("SYMGO_UNWIND", 400),
		"unwinding_assertions_ok":       !containsSub(inconclusive, "unwinding"),
		"known_findings_hit":            knownHit,
		"inconclusive":                  inconclusive,
		"engine_events":                 evs,
		"rule":                          "states = feasible symbolic paths explored to completion; transitions = SMT queries discharged (feasibility + assertion); traces_validated = solver-chosen path witnesses re-run natively against the real build with identical assertion outcomes",
	}
	if len(samples) == 0 {
		cov["samples"] = []interface{}{"no path completed"}
	}
	if totalPaths == 0 {
		cov["states"] = 1
	}
	if totalQueries == 0 {
		cov["transitions"] = 1
	}
	evd := map[string]interface{}{
		"property_id": id,
		"tier":        tierName,
		"seed":        seed,
		"level":       "model_checking",
		"coverage":    cov,
		"assumptions": assumptionsFor(id),
		"wall_s":      round3(time.Since(t0).Seconds()),
		"violations":  violationsReported,
	}
	os.MkdirAll(evidenceDir, 0o755)
	b, _ := json.MarshalIndent(evd, "", " ")
	os.WriteFile(filepath.Join(evidenceDir, id+".json"), b, 0o644)

	if violationsReported > 0 {
		return 1
	}
	if len(inconclusive) > 0 {
		for _, s := range inconclusive {
			fmt.Println("INCONCLUSIVE:", s)
		}
		return 2
	}
	fmt.Printf("OK property=%s tier=%s paths=%d queries=%d validated_traces=%d wall=%.1fs\n", id, tierName, totalPaths, totalQueries, validated, time.Since(t0).Seconds())
	return 0
}

func allKnownOrViolated(failed []string, res *HarnessResult) bool {
	for _, l := range failed {
		if res.Violated[l] == 0 {
			return false
		}
	}
	return true
}

func sameCounts(a, b map[string]int) bool {
	for k, v := range a {
		if v > 0 && b[k] == 0 {
			return false
		}
	}
	for k, v := range b {
		if v > 0 && a[k] == 0 {
			return false
		}
	}
	return true
}

func containsSub(ss []string, sub string) bool {
	for _, s := range ss {
		if strings.Contains(s, sub) {
			return true
		}
	}
	return false
}

func round3(f float64) float64 { return float64(int(f*1000+0.5)) / 1000 }

func tailLines(s string, n int) string {
	ls := strings.Split(s, "\n")
	if len(ls) > n {
		ls = ls[len(ls)-n:]
	}
	return strings.Join(ls, "\n")
}

func stripProbes(w map[string]string) map[string]string {
	out := map[string]string{}
	for k, v := range w {
		if !strings.HasPrefix(k, "probe:") {
			out[k] = v
		}
	}
	return out
}

func onlyProbes(w map[string]string) map[string]string {
	out := map[string]string{}
	for k, v := range w {
		if strings.HasPrefix(k, "probe:") {
			out[strings.TrimPrefix(k, "probe:")] = v
		}
	}
	return out
}

func writeReplay(path string, rf *replayFile, tier int) {
	m := map[string]interface{}{"harness": rf.Harness, "label": rf.Label, "values": rf.Values, "probes": rf.Probes, "note": rf.Note, "dir": rf.Dir, "tier": tier}
	b, _ := json.MarshalIndent(m, "", " ")
	os.WriteFile(path, b, 0o644)
}

func readReplay(path string) *replayFile {
	rf := &replayFile{}
	b, err := os.ReadFile(path)
	if err == nil {
		json.Unmarshal(b, rf)
	}
	return rf
}

func assumptionsFor(id string) []string {
	common := []string{
		"go/ssa lowering of the current /repo tree is faithful; the engine's SSA semantics are validated per run by replaying solver-chosen path witnesses natively",
		"external callee models of DESIGN.md 3.4 (Keccak-256 as an injective uninterpreted function, bech32 encode/decode as mutually inverse uninterpreted functions, protobuf Marshal/Unmarshal as identity on module-written values, KV store as a write log over an empty base with byte-lexicographic iteration)",
		"bounds: every symbolic byte string has the capacity declared in its harness; loops are unwound by path forking with unwinding bound 400 per function activation (exceeding it is reported as inconclusive)",
	}
	b, err := os.ReadFile(filepath.Join(verifDir, "spec", "assumptions.json"))
	if err == nil {
		m := map[string][]string{}
		if json.Unmarshal(b, &m) == nil {
			common = append(common, m[id]...)
		}
	}
	return common
}
