package main

func cmdCheck(id, tier string) int { return 2 }
