package main

import (
	"go/types"
	"testing"
)

// capacities printed by go1.23.5 for 70 single appends to nil slices of: struct{string}; struct{uint32;uint64};
// struct{uint32;[]byte;string}; string; uint32; struct{[40]byte}
func TestGrowCapMatchesRuntime(t *testing.T) {
	str := types.Typ[types.String]
	u32, u64 := types.Typ[types.Uint32], types.Typ[types.Uint64]
	f := func(ts ...types.Type) types.Type {
		var vs []*types.Var
		for i, x := range ts {
			vs = append(vs, types.NewField(0, nil, string(rune('A'+i)), x, false))
		}
		return types.NewStruct(vs, nil)
	}
	ets := []types.Type{f(str), f(u32, u64), f(u32, types.NewSlice(types.Typ[types.Byte]), str), str, u32, f(types.NewArray(types.Typ[types.Byte], 40))}
	want := map[int][]int{1: {1, 1, 1, 1, 2, 1}, 2: {2, 2, 2, 2, 2, 2}, 3: {4, 4, 4, 4, 4, 4}, 5: {8, 8, 8, 8, 8, 8}, 9: {16, 16, 18, 16, 16, 16},
		17: {32, 32, 18, 32, 32, 32}, 19: {32, 32, 37, 32, 32, 32}, 33: {71, 64, 37, 71, 64, 67}, 38: {71, 64, 85, 71, 64, 67}, 65: {71, 128, 85, 71, 128, 67}, 68: {71, 128, 85, 71, 128, 134}}
	for k, et := range ets {
		c := 0
		for n := 1; n <= 70; n++ {
			if n > c {
				c = growCap(c, n, et)
			}
			if w, ok := want[n]; ok && w[k] != c {
				t.Errorf("type %d after %d appends: cap %d, runtime %d", k, n, c, w[k])
			}
		}
	}
	if c := growCap(0, 3, ets[0]); c != 3 {
		t.Errorf("append 3 to nil: %d", c)
	}
	if c := growCap(2, 7, ets[2]); c != 7 {
		t.Errorf("append 5 to cap 2: %d", c)
	}
}
