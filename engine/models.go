package main

// Models of external callees. Every model here is part of the claim (DESIGN.md 3.4).

import (
	"crypto/sha256"
	"go/types"
	"math/big"
	"strings"

	"golang.org/x/tools/go/ssa"
)

var errDynType types.Type = types.NewNamed(types.NewTypeName(0, nil, "modelError", nil), types.NewStruct(nil, nil), nil)
var modelDynType types.Type = types.NewNamed(types.NewTypeName(0, nil, "modelObject", nil), types.NewStruct(nil, nil), nil)

const (
	hashCap   = 416 // max bytes of a Keccak input
	strCap    = 64  // max bytes of a string given to bech32 / hex UFs
	addrCap   = 32  // max decoded address bytes
	b32EncLen = 64  // representation bytes of an encoded address
)

const rtPkg = "github.com/circlefin/noble-cctp/x/cctp/verifrt."

func (e *Exec) newErr(name string) *IfaceV { return e.errIface(&ErrObj{name: name}) }

func (e *Exec) errMethod(eo *ErrObj, name string, args []Value) Value {
	switch name {
	case "Error", "String":
		return e.constBytes("<error:"+errText(eo)+">", true)
	case "Unwrap":
		if eo.wrap != nil {
			return e.errIface(eo.wrap)
		}
		return e.nilErr()
	case "ABCICode":
		return e.tb.BV(1, 32)
	case "Codespace":
		return e.constBytes("cctp", true)
	}
	e.fail("error method %s", name)
	return nil
}

// errRoot finds the modelled error object behind an error value (registered sentinel errors are
// pointers to such objects).
func errRoot(v Value) *ErrObj {
	iv, ok := v.(*IfaceV)
	if !ok || iv.t == nil {
		return nil
	}
	switch x := iv.v.(type) {
	case *ErrObj:
		return x
	case *PtrV:
		if x.c != nil {
			if eo, ok := x.c.v.(*ErrObj); ok {
				return eo
			}
		}
	}
	return nil
}

func errChainHas(e, target *ErrObj) bool {
	for x := e; x != nil; x = x.wrap {
		if x == target {
			return true
		}
	}
	return false
}

func (e *Exec) wrapErr(v Value, how string, msg Value) Value {
	iv := v.(*IfaceV)
	if iv.t == nil {
		return e.nilErr()
	}
	// the description given to Wrap/Wrapf (its format string) is kept: it is what distinguishes the
	// response texts of two rejections that share a registered root
	text := ""
	if s, ok := msg.(*SliceV); ok {
		if str, ok := e.concreteString(s); ok {
			text = str
		}
	}
	eo := errRoot(v)
	if eo == nil {
		return e.errIface(&ErrObj{name: how, msg: text})
	}
	return e.errIface(&ErrObj{name: eo.name, wrap: eo, msg: text})
}

// errText is the modelled text of an error: the chain of descriptions down to the root's name.
func errText(eo *ErrObj) string {
	var parts []string
	for x := eo; x != nil; x = x.wrap {
		if x.msg != "" {
			parts = append(parts, x.msg)
		}
		if x.wrap == nil {
			parts = append(parts, x.name)
		}
	}
	return strings.Join(parts, ": ")
}

func (e *Exec) bigOf(v Value, what string) *BigV {
	p, ok := v.(*PtrV)
	if !ok {
		e.fail("%s: *big.Int expected, got %T", what, v)
	}
	if p.c == nil {
		e.goPanicNow("nil pointer dereference (*big.Int)." + what)
	}
	b, ok := p.c.v.(*BigV)
	if !ok {
		e.fail("%s: pointee %T", what, p.c.v)
	}
	return b
}

func (e *Exec) newBig(v *Term) *PtrV {
	return &PtrV{c: &Cell{v: &BigV{v: v}, global: e.inInit}}
}

func (e *Exec) bigAbs(v *Term) *Term {
	tb := e.tb
	return tb.Ite(tb.Slt(v, tb.BV(0, bigW)), tb.Neg(v), v)
}

func pow2(n int) *big.Int { return new(big.Int).Lsh(big.NewInt(1), uint(n)) }

// intrinsic implements modelled functions; returns ok=false when name is not modelled.
func (e *Exec) intrinsic(name string, fn *ssa.Function, args []Value) (Value, bool) {
	tb := e.tb
	if strings.HasPrefix(name, rtPkg) || strings.HasPrefix(name, "("+rtPkg) || strings.HasPrefix(name, "(*"+rtPkg) {
		return e.rtIntrinsic(strings.NewReplacer(rtPkg, "").Replace(name), fn, args)
	}
	switch name {
	// ---- errors / formatting ----
	case "cosmossdk.io/errors.Wrap", "cosmossdk.io/errors.Wrapf", "github.com/pkg/errors.Wrap", "github.com/pkg/errors.Wrapf":
		return e.wrapErr(args[0], "wrapped", args[1]), true
	case "cosmossdk.io/errors.Register", "cosmossdk.io/errors.RegisterWithGRPCCode":
		desc := "registered"
		if s, ok := args[len(args)-1].(*SliceV); ok {
			if str, ok := e.concreteString(s); ok {
				desc = str
			}
		}
		return &PtrV{c: &Cell{v: &ErrObj{name: desc}, global: true}}, true
	case "(*cosmossdk.io/errors.Error).Error":
		return e.constBytes("<error>", true), true
	case "errors.New", "fmt.Errorf", "google.golang.org/grpc/status.Error", "google.golang.org/grpc/status.Errorf":
		for _, a := range args {
			if sv, ok := a.(*SliceV); ok {
				if str, ok := e.concreteString(sv); ok {
					return e.errIface(&ErrObj{name: name, msg: str}), true
				}
			}
		}
		return e.newErr(name), true
	case "fmt.Sprintf", "fmt.Sprint", "fmt.Sprintln":
		return e.constBytes("<fmt>", true), true
	case "fmt.Println", "fmt.Printf", "fmt.Print":
		return TupleV{tb.BV(0, 64), e.nilErr()}, true
	case "errors.Is", "cosmossdk.io/errors.IsOf", "(*cosmossdk.io/errors.Error).Is":
		a := args[0].(*IfaceV)
		var targets []Value
		if gs, ok := args[1].(*GSliceV); ok {
			for _, c := range gs.e {
				targets = append(targets, c.v)
			}
		} else {
			targets = append(targets, args[1])
		}
		if a.t == nil {
			for _, t := range targets {
				if iv, ok := t.(*IfaceV); ok && iv.t == nil {
					return tb.tt, true
				}
			}
			return tb.ff, true
		}
		ea := errRoot(a)
		if ea == nil {
			// an error value of some other Go type (not a registered sentinel, wrapping nothing)
			return tb.ff, true
		}
		for _, t := range targets {
			et := errRoot(t)
			if et != nil && errChainHas(ea, et) {
				return tb.tt, true
			}
		}
		return tb.ff, true

	// ---- bytes / strings ----
	case "bytes.Equal":
		return e.bytesEqual(e.asBytes(args[0], name), e.asBytes(args[1], name)), true
	case "bytes.Compare", "strings.Compare":
		return e.bytesCompare(e.asBytes(args[0], name), e.asBytes(args[1], name)), true
	case "bytes.HasPrefix", "strings.HasPrefix":
		return e.hasPrefix(e.asBytes(args[0], name), e.asBytes(args[1], name)), true
	case "strings.TrimPrefix", "bytes.TrimPrefix":
		s, p := e.asBytes(args[0], name), e.asBytes(args[1], name)
		if e.branch(e.hasPrefix(s, p)) {
			pl := e.concretize(p.len, e.reprCap(p), "prefix len")
			n := tb.Sub(s.len, tb.BV(int64(pl), 64))
			ml := s.minLen - pl
			if ml < 0 {
				ml = 0
			}
			return (&SliceV{a: s.a, off: s.off + pl, len: n, gocap: n, isStr: s.isStr, isNil: tb.ff, minLen: ml}).withMax(e.reprCap(s) - pl), true
		}
		return s, true
	case "strings.ToLower":
		return e.toLower(e.asBytes(args[0], name)), true
	case "strings.ToUpper":
		e.fail("strings.ToUpper not modelled")
	case "strings.EqualFold", "bytes.EqualFold":
		return e.equalFold(e.asBytes(args[0], name), e.asBytes(args[1], name)), true
	case "strings.TrimSpace":
		// exact for ASCII strings (case split on the length and on the number of leading/trailing
		// white-space characters); a string with a non-ASCII byte is outside the model
		s := e.asBytes(args[0], name)
		if e.branch(tb.Not(e.allASCII(s))) {
			e.fail("strings.TrimSpace on a string with non-ASCII bytes")
		}
		n := e.concretize(s.len, e.reprCap(s), "TrimSpace length")
		isSp := func(b *Term) *Term {
			return tb.Or(tb.Eq(b, tb.BV(' ', 8)), tb.And(tb.Ule(tb.BV(9, 8), b), tb.Ule(b, tb.BV(13, 8))))
		}
		lead := 0
		for lead < n && e.branch(isSp(e.byteAt(s, lead))) {
			lead++
		}
		end := n
		for end > lead && e.branch(isSp(e.byteAt(s, end-1))) {
			end--
		}
		l := tb.BV(int64(end-lead), 64)
		return (&SliceV{a: s.a, off: s.off + lead, len: l, gocap: l, isStr: true, isNil: tb.ff, minLen: end - lead}).withMax(end - lead), true
	case "encoding/hex.EncodeToString":
		return e.hexEncode(e.asBytes(args[0], name)), true
	case "encoding/hex.DecodeString":
		return e.hexDecode(e.asBytes(args[0], name)), true

	// ---- crypto ----
	case "github.com/ethereum/go-ethereum/crypto.Keccak256":
		gs, ok := args[0].(*GSliceV)
		if !ok {
			e.fail("Keccak256 args %T", args[0])
		}
		var in *SliceV
		for i, c := range gs.e {
			s := e.asBytes(c.v, name)
			if i == 0 {
				in = s
			} else {
				in = e.concatBytes(in, s, false)
			}
		}
		if in == nil {
			in = e.constBytes("", false)
		}
		return e.keccak(in), true
	case "github.com/ethereum/go-ethereum/crypto.Ecrecover":
		return e.ecrecover(e.asBytes(args[0], name), e.asBytes(args[1], name)), true
	case "github.com/ethereum/go-ethereum/crypto.PubkeyToAddress":
		pk, ok := args[0].(*StructV)
		if !ok {
			e.fail("PubkeyToAddress arg %T", args[0])
		}
		x := e.bigOf(pk.f[1].v, "PubkeyToAddress.X")
		y := e.bigOf(pk.f[2].v, "PubkeyToAddress.Y")
		out := tb.UF("ethaddr", 160, x.v, y.v)
		e.injective("ethaddr", tb.Concat(x.v, y.v), out)
		return &ByteArrV{a: e.bytesFromTerm(out, 20, false).a}, true
	case "github.com/ethereum/go-ethereum/common.FromHex":
		return e.fromHex(e.asBytes(args[0], name)), true
	case "github.com/cosmos/btcutil/base58.Decode":
		s := e.asBytes(args[0], name)
		p := e.packBytes(s, strCap)
		l := tb.UF("b58len", 64, p)
		e.addPC(tb.UleRaw(l, tb.BV(40, 64)))
		tb.DeclareUB(l, 40)
		bs := tb.UF("b58bytes", 40*8, p)
		r := e.bytesFromTerm(bs, 40, false)
		r.len, r.gocap, r.minLen = l, l, 0
		return r, true

	// ---- addresses ----
	case "github.com/cosmos/cosmos-sdk/x/auth/types.NewModuleAddress":
		// exact: address.Module(name) = sha256(name)[:20] (crypto.AddressHash)
		nm := e.mustString(args[0], "NewModuleAddress")
		sum := sha256.Sum256([]byte(nm))
		r := e.constBytes(string(sum[:20]), false)
		r.a.global = e.inInit
		return r, true
	case "github.com/cosmos/cosmos-sdk/types.AccAddressFromBech32":
		return e.accAddressFromBech32(e.asBytes(args[0], name)), true
	case "github.com/cosmos/cosmos-sdk/types.GetFromBech32":
		// well-formed bech32 with the expected prefix; unlike AccAddressFromBech32 the payload may be
		// empty or longer than 255 bytes (b32ok implies b32wf)
		sv := e.asBytes(args[0], name)
		sp := e.packBytes(sv, strCap)
		wf := tb.UF("b32wf", 0, sp)
		e.addPC(tb.Implies(tb.UF("b32ok", 0, sp), wf))
		if len(e.abstractAddr) == 0 {
			e.addPC(tb.Implies(tb.Ult(sv.len, tb.BV(8, 64)), tb.Not(wf)))
		}
		nilBytes := &SliceV{len: tb.BV(0, 64), gocap: tb.BV(0, 64), isNil: tb.tt}
		if !e.branch(wf) {
			return TupleV{nilBytes, e.newErr("invalid bech32 string")}, true
		}
		l := tb.UF("b32declen", 64, sp)
		e.addPC(tb.UleRaw(l, tb.BV(addrCap, 64)))
		tb.DeclareUB(l, addrCap)
		r := e.bytesFromTerm(tb.UF("b32dec", 8*addrCap, sp), addrCap, false)
		r.len, r.gocap, r.minLen = l, l, 0
		return TupleV{r, e.nilErr()}, true
	case "github.com/cosmos/cosmos-sdk/types/bech32.ConvertAndEncode":
		s := e.b32Encode(e.asBytes(args[1], name))
		return TupleV{s, e.nilErr()}, true
	case "github.com/cosmos/cosmos-sdk/types.Bech32ifyAddressBytes":
		bs := e.asBytes(args[1], name)
		if e.branch(tb.Eq(bs.len, tb.BV(0, 64))) {
			return TupleV{e.constBytes("", true), e.nilErr()}, true
		}
		pfx := e.asBytes(args[0], name)
		if e.branch(tb.Eq(pfx.len, tb.BV(0, 64))) {
			return TupleV{e.constBytes("", true), e.newErr("bech32 prefix empty")}, true
		}
		return TupleV{e.b32Encode(bs), e.nilErr()}, true
	case "(github.com/cosmos/cosmos-sdk/types.AccAddress).String":
		bs := e.asBytes(args[0], name)
		if e.branch(tb.Eq(bs.len, tb.BV(0, 64))) {
			return e.constBytes("", true), true
		}
		return e.b32Encode(bs), true
	case "github.com/cosmos/cosmos-sdk/types.GetConfig":
		return &PtrV{c: &Cell{v: &ModelObj{kind: "sdkconfig"}}}, true
	case "(*github.com/cosmos/cosmos-sdk/types.Config).GetBech32AccountAddrPrefix":
		return e.constBytes("cosmos", true), true

	// ---- sdk context / events / store plumbing ----
	case "github.com/cosmos/cosmos-sdk/types.UnwrapSDKContext":
		iv, ok := args[0].(*IfaceV)
		if !ok || iv.t == nil {
			e.goPanicNow("UnwrapSDKContext(nil)")
		}
		mo, ok := iv.v.(*ModelObj)
		if !ok || mo.kind != "ctx" {
			e.fail("UnwrapSDKContext of %T", iv.v)
		}
		return mo, true
	case "(github.com/cosmos/cosmos-sdk/types.Context).EventManager":
		return e.modelMethod(args[0].(*ModelObj), "EventManager", nil), true
	case "(github.com/cosmos/cosmos-sdk/types.Context).CacheContext":
		c := ctxModel(args[0])
		if c == nil {
			e.fail("CacheContext of %T", args[0])
		}
		return e.cacheContext(c), true
	case "ctx.writeCache":
		e.writeCache(args[0].(*ModelObj))
		return nil, true
	case "(github.com/cosmos/cosmos-sdk/types.Context).Logger":
		return e.modelMethod(args[0].(*ModelObj), "Logger", nil), true
	case "(*github.com/cosmos/cosmos-sdk/types.EventManager).EmitTypedEvent":
		p := args[0].(*PtrV)
		if p.c == nil {
			e.goPanicNow("nil event manager")
		}
		mo, ok := p.c.v.(*ModelObj)
		if !ok {
			e.fail("event manager is %T", p.c.v)
		}
		return e.emitTypedEventTo(mo, args[1]), true
	case "github.com/cosmos/cosmos-sdk/runtime.KVStoreAdapter":
		iv, ok := args[0].(*IfaceV)
		if !ok || iv.t == nil {
			e.fail("KVStoreAdapter(nil)")
		}
		mo := iv.v.(*ModelObj)
		return &IfaceV{t: modelDynType, v: &ModelObj{kind: "kvstore", st: mo.st}}, true
	case "cosmossdk.io/store/prefix.NewStore":
		iv, ok := args[0].(*IfaceV)
		if !ok || iv.t == nil {
			e.fail("prefix.NewStore(nil)")
		}
		parent := iv.v.(*ModelObj)
		p := e.snapshotBytes(e.asBytes(args[1], name))
		if parent.prefix != nil {
			p = e.concatBytes(parent.prefix, p, false)
		}
		return &ModelObj{kind: "prefixstore", st: parent.st, prefix: p}, true
	}
	// method families
	if strings.HasPrefix(name, "(cosmossdk.io/store/prefix.Store).") {
		mo, ok := args[0].(*ModelObj)
		if !ok {
			e.fail("prefix.Store receiver %T", args[0])
		}
		return e.modelMethod(mo, strings.TrimPrefix(name, "(cosmossdk.io/store/prefix.Store)."), args[1:]), true
	}
	if strings.HasPrefix(name, "(*"+repoMod+"/x/cctp/types.") && strings.HasSuffix(name, ").Unmarshal") {
		return e.generatedUnmarshal(args), true
	}
	if strings.HasPrefix(name, "(*sync.Map).") {
		return e.syncMapMethod(strings.TrimPrefix(name, "(*sync.Map)."), args), true
	}
	switch name {
	case "(*sync.Once).Do":
		p, ok := args[0].(*PtrV)
		if !ok || p.c == nil {
			e.goPanicNow("nil *sync.Once")
		}
		if e.onceDone == nil {
			e.onceDone = map[*Cell]bool{}
		}
		if !e.onceDone[p.c] {
			e.onceDone[p.c] = true
			if p.c.global {
				e.noteGlobalWrite("sync.Once")
			}
			// what the function does happens-before every later return of Do: synchronised
			e.lockDepth++
			e.callValue(args[1], nil)
			e.lockDepth--
		}
		return nil, true
	case "(*sync.Mutex).Lock", "(*sync.RWMutex).Lock", "(*sync.RWMutex).RLock":
		e.lockDepth++
		return nil, true
	case "(*sync.Mutex).Unlock", "(*sync.RWMutex).Unlock", "(*sync.RWMutex).RUnlock":
		if e.lockDepth > 0 {
			e.lockDepth--
		}
		return nil, true
	case "github.com/ethereum/go-ethereum/crypto.NewKeccakState":
		// a Keccak-256 sponge as the list of what was written since the last Reset (sequential model)
		return &IfaceV{t: modelDynType, v: &ModelObj{kind: "keccakstate", global: e.inInit, data: map[string]Value{"buf": e.constBytes("", false)}}}, true
	case "(*sync.Mutex).TryLock", "(*sync.RWMutex).TryLock":
		return tb.tt, true
	case "(*sync.WaitGroup).Add", "(*sync.WaitGroup).Done":
		return nil, true
	case "(*sync.WaitGroup).Wait":
		e.joinGoroutines()
		return nil, true
	}
	if strings.HasPrefix(name, "(*math/big.Int).") {
		return e.bigMethod(strings.TrimPrefix(name, "(*math/big.Int)."), args), true
	}
	switch name {
	case "cosmossdk.io/math.bigIntOverflows":
		b := e.bigOf(args[0], name)
		return tb.Not(tb.Ult(e.bigAbs(b.v), tb.BVb(pow2(256), bigW))), true
	case "math/big.NewInt":
		return e.newBig(tb.SExt(args[0].(*Term), bigW)), true
	case "github.com/cosmos/cosmos-sdk/types.NewCoin":
		return e.newCoin(args[0], args[1]), true
	case "github.com/cosmos/cosmos-sdk/types.NewCoins":
		return e.newCoins(args[0]), true
	case "github.com/cosmos/cosmos-sdk/types.ValidateDenom":
		ok := e.validDenom(e.asBytes(args[0], name))
		if e.branch(ok) {
			return e.nilErr(), true
		}
		return e.newErr("invalid denom"), true
	}
	// ambient sources whose result is modelled as a fresh arbitrary value on every call, so that any
	// dependence of an outcome on them shows up as a difference between two runs (C18)
	switch name {
	case "time.Now":
		e.events = append(e.events, "ambient: call of time.Now @ "+e.where())
		st, ok := e.zero(fn.Signature.Results().At(0).Type()).(*StructV)
		if ok && len(st.f) >= 2 {
			st.f[0].v = tb.Sym(e.W.fresh("wallclock"), 64)
			st.f[1].v = tb.Sym(e.W.fresh("wallclock_ext"), 64)
			return st, true
		}
	case "math/rand.Int", "math/rand.Intn", "math/rand.Int63", "math/rand.Int63n", "math/rand.Uint64", "math/rand.Uint32", "math/rand.Int31", "math/rand.Int31n",
		"math/rand/v2.Int", "math/rand/v2.IntN", "math/rand/v2.Uint64", "math/rand/v2.Uint32":
		e.events = append(e.events, "ambient: call of "+name+" @ "+e.where())
		w := width(fn.Signature.Results().At(0).Type())
		if w > 0 {
			return tb.Sym(e.W.fresh("random"), w), true
		}
	}
	// ambient sources of nondeterminism (C18)
	for _, p := range []string{"time.Since", "time.Until", "math/rand.", "math/rand/v2.", "crypto/rand.", "os.", "runtime.", "(*math/rand.Rand)."} {
		if strings.HasPrefix(name, p) && !e.inInit {
			e.events = append(e.events, "ambient: call of "+name+" @ "+e.where())
			e.fail("ambient nondeterminism source %s", name)
		}
	}
	return nil, false
}

// ---------- big.Int ----------

func (e *Exec) bigMethod(m string, args []Value) Value {
	tb := e.tb
	z := e.bigOf(args[0], m)
	zero := tb.BV(0, bigW)
	switch m {
	case "SetBytes":
		buf := e.asBytes(args[1], m)
		n := e.concretize(buf.len, e.reprCap(buf), "SetBytes length")
		if n > bigW/8-1 {
			e.fail("big.Int.SetBytes of %d bytes exceeds model width", n)
		}
		parts := []*Term{tb.BV(0, bigW-8*n)}
		for i := 0; i < n; i++ {
			parts = append(parts, e.byteAt(buf, i))
		}
		z.v = tb.Concat(parts...)
		return args[0]
	case "FillBytes":
		buf := e.asBytes(args[1], m)
		n := e.concretize(buf.len, e.reprCap(buf), "FillBytes length")
		abs := e.bigAbs(z.v)
		if 8*n < bigW {
			e.panicIf(tb.Not(tb.Ult(abs, tb.BVb(pow2(8*n), bigW))), "math/big: buffer too small to fit value")
		}
		if n > 0 && buf.a.global {
			e.noteGlobalWrite("FillBytes", buf.a)
		}
		for i := 0; i < n; i++ {
			lo := 8 * (n - 1 - i)
			if lo+7 < bigW {
				buf.a.b[buf.off+i] = tb.Extract(lo+7, lo, abs)
			} else {
				buf.a.b[buf.off+i] = tb.BV(0, 8)
			}
		}
		return buf
	case "Sign":
		return tb.Ite(tb.Eq(z.v, zero), tb.BV(0, 64), tb.Ite(tb.Slt(z.v, zero), tb.BV(-1, 64), tb.BV(1, 64)))
	case "Cmp":
		y := e.bigOf(args[1], m)
		return tb.Ite(tb.Eq(z.v, y.v), tb.BV(0, 64), tb.Ite(tb.Slt(z.v, y.v), tb.BV(-1, 64), tb.BV(1, 64)))
	case "CmpAbs":
		y := e.bigOf(args[1], m)
		a, b := e.bigAbs(z.v), e.bigAbs(y.v)
		return tb.Ite(tb.Eq(a, b), tb.BV(0, 64), tb.Ite(tb.Ult(a, b), tb.BV(-1, 64), tb.BV(1, 64)))
	case "Set":
		y := e.bigOf(args[1], m)
		z.v = y.v
		return args[0]
	case "SetInt64":
		z.v = tb.SExt(args[1].(*Term), bigW)
		return args[0]
	case "SetUint64":
		z.v = tb.ZExt(args[1].(*Term), bigW)
		return args[0]
	case "BitLen":
		abs := e.bigAbs(z.v)
		res := tb.BV(0, 64)
		for k := 1; k < bigW; k++ {
			// bitlen >= k  <=>  abs >= 2^(k-1)
			res = tb.Ite(tb.Not(tb.Ult(abs, tb.BVb(pow2(k-1), bigW))), tb.BV(int64(k), 64), res)
		}
		return res
	case "IsUint64":
		return tb.And(tb.Not(tb.Slt(z.v, zero)), tb.Ult(z.v, tb.BVb(pow2(64), bigW)))
	case "IsInt64":
		return tb.And(tb.Sle(tb.BVb(new(big.Int).Neg(pow2(63)), bigW), z.v), tb.Slt(z.v, tb.BVb(pow2(63), bigW)))
	case "Uint64":
		return tb.Extract(63, 0, e.bigAbs(z.v))
	case "Int64":
		return tb.Extract(63, 0, z.v)
	case "Neg":
		y := e.bigOf(args[1], m)
		z.v = tb.Neg(y.v)
		return args[0]
	case "Abs":
		y := e.bigOf(args[1], m)
		z.v = e.bigAbs(y.v)
		return args[0]
	case "Add", "Sub":
		x := e.bigOf(args[1], m)
		y := e.bigOf(args[2], m)
		xe, ye := tb.SExt(x.v, bigW+1), tb.SExt(y.v, bigW+1)
		var r *Term
		if m == "Add" {
			r = tb.Add(xe, ye)
		} else {
			r = tb.Sub(xe, ye)
		}
		// overflow of the model width => inconclusive
		if e.branch(tb.Not(tb.Eq(tb.SExt(tb.Extract(bigW-1, 0, r), bigW+1), r))) {
			e.fail("big.Int.%s overflows the %d-bit model", m, bigW)
		}
		z.v = tb.Extract(bigW-1, 0, r)
		return args[0]
	case "Exp":
		x, y := e.bigOf(args[1], m), e.bigOf(args[2], m)
		mp, _ := args[3].(*PtrV)
		if !x.v.isConst() || !y.v.isConst() || (mp != nil && mp.c != nil) {
			e.fail("big.Int.Exp on symbolic or modular arguments")
		}
		r := new(big.Int).Exp(signedBig(x.v.c, bigW), signedBig(y.v.c, bigW), nil)
		if r.BitLen() >= bigW-1 {
			e.fail("big.Int.Exp result exceeds the model width")
		}
		z.v = tb.BVb(r, bigW)
		return args[0]
	case "Lsh":
		x := e.bigOf(args[1], m)
		n, ok := args[2].(*Term)
		if !ok || !n.isConst() || !x.v.isConst() {
			e.fail("big.Int.Lsh on symbolic arguments")
		}
		r := new(big.Int).Lsh(signedBig(x.v.c, bigW), uint(n.i64()))
		if r.BitLen() >= bigW-1 {
			e.fail("big.Int.Lsh result exceeds the model width")
		}
		z.v = tb.BVb(r, bigW)
		return args[0]
	case "String", "Text":
		p := tb.UF("bigstr", 8*80, z.v)
		s := e.bytesFromTerm(p, 80, true)
		l := tb.UF("bigstrlen", 64, z.v)
		e.addPC(tb.And(tb.Ule(tb.BV(1, 64), l), tb.UleRaw(l, tb.BV(80, 64))))
		tb.DeclareUB(l, 80)
		s.len, s.gocap, s.minLen = l, l, 1
		return s
	case "Bytes":
		abs := e.bigAbs(z.v)
		// minimal big-endian encoding, at most 33 bytes
		nb := tb.BV(0, 64)
		for k := 1; k <= bigW/8; k++ {
			nb = tb.Ite(tb.Not(tb.Ult(abs, tb.BVb(pow2(8*(k-1)), bigW))), tb.BV(int64(k), 64), nb)
		}
		n := e.concretize(nb, bigW/8, "big.Int.Bytes length")
		a := &Alloc{}
		for i := 0; i < n; i++ {
			lo := 8 * (n - 1 - i)
			a.b = append(a.b, tb.Extract(lo+7, lo, abs))
		}
		l := tb.BV(int64(n), 64)
		return &SliceV{a: a, len: l, gocap: l, isNil: tb.ff, minLen: n}
	}
	e.fail("big.Int method %s not modelled", m)
	return nil
}

// ---------- strings ----------

func (e *Exec) isUpper(b *Term) *Term {
	return e.tb.And(e.tb.Ule(e.tb.BV('A', 8), b), e.tb.Ule(b, e.tb.BV('Z', 8)))
}
func (e *Exec) lowerByte(b *Term) *Term {
	return e.tb.Ite(e.isUpper(b), e.tb.Add(b, e.tb.BV(32, 8)), b)
}

func (e *Exec) allASCII(s *SliceV) *Term {
	tb := e.tb
	n := e.reprCap(s)
	var cs []*Term
	for i := 0; i < n; i++ {
		c := tb.Ult(e.byteAt(s, i), tb.BV(0x80, 8))
		if i >= s.minLen {
			c = tb.Implies(tb.Ult(tb.BV(int64(i), 64), s.len), c)
		}
		cs = append(cs, c)
	}
	return tb.And(cs...)
}

func (e *Exec) toLower(s *SliceV) *SliceV {
	tb := e.tb
	n := e.reprCap(s)
	asc := e.allASCII(s)
	a := &Alloc{}
	if asc.isTrue() {
		for i := 0; i < n; i++ {
			a.b = append(a.b, e.lowerByte(e.byteAt(s, i)))
		}
		return &SliceV{a: a, len: s.len, gocap: s.len, isStr: true, isNil: tb.ff, minLen: s.minLen}
	}
	// non-ASCII input: the result is an uninterpreted function of the input
	p := e.packBytes(s, strCap)
	ul := tb.UF("tolower_len", 64, p)
	ub := tb.UF("tolower_bytes", 8*strCap, p)
	e.addPC(tb.UleRaw(ul, tb.BV(int64(strCap), 64)))
	tb.DeclareUB(ul, int64(strCap))
	l := tb.Ite(asc, s.len, ul)
	for i := 0; i < strCap; i++ {
		hi := 8*strCap - 1 - 8*i
		u := tb.Extract(hi, hi-7, ub)
		if i < n {
			a.b = append(a.b, tb.Ite(asc, e.lowerByte(e.byteAt(s, i)), u))
		} else {
			a.b = append(a.b, tb.Ite(asc, tb.BV(0, 8), u))
		}
	}
	return (&SliceV{a: a, len: l, gocap: l, isStr: true, isNil: tb.ff}).withMax(strCap)
}

// equalFold is exact when at least one side is pure ASCII; the other side may contain the two
// non-ASCII runes whose simple-fold orbit meets ASCII: U+017F (c5 bf ~ s) and U+212A (e2 84 aa ~ k).
// Any other non-ASCII byte on that side cannot fold to an ASCII rune and gives false.
func (e *Exec) equalFold(s, t *SliceV) *Term {
	tb := e.tb
	sa, ta := e.allASCII(s), e.allASCII(t)
	if !sa.isTrue() && ta.isTrue() {
		s, t = t, s
		sa, ta = ta, sa
	}
	if !sa.isTrue() && !ta.isTrue() {
		// lockstep case, exact whatever the bytes are: equal lengths and at every position the bytes
		// are equal or ASCII letters differing only in case. UTF-8 decoding then stays aligned (a
		// position where two different ASCII bytes meet cannot be a continuation byte on either side),
		// so every pair of runes is equal or fold-equal.
		n := e.reprCap(s)
		if k := e.reprCap(t); k > n {
			n = k
		}
		cs := []*Term{tb.Eq(s.len, t.len)}
		for i := 0; i < n; i++ {
			a, b := e.byteAt(s, i), e.byteAt(t, i)
			same := tb.Or(tb.Eq(a, b), tb.And(tb.Ult(a, tb.BV(0x80, 8)), tb.Ult(b, tb.BV(0x80, 8)), tb.Eq(e.lowerByte(a), e.lowerByte(b))))
			cs = append(cs, tb.Implies(tb.Ult(tb.BV(int64(i), 64), s.len), same))
		}
		if e.branch(tb.And(cs...)) {
			return tb.tt
		}
	}
	if !sa.isTrue() {
		// make s the ASCII side if the solver can prove it; otherwise require one side ASCII
		if !e.branch(sa) {
			if !e.branch(ta) {
				e.fail("strings.EqualFold with both arguments possibly non-ASCII")
			}
			s, t = t, s
		}
	}
	ns, nt := e.reprCap(s), e.reprCap(t)
	// match[i][j]: s[i:] folds-equal t[j:]
	match := make([][]*Term, ns+2)
	for i := range match {
		match[i] = make([]*Term, nt+4)
	}
	I := func(i int) *Term { return tb.BV(int64(i), 64) }
	for i := ns + 1; i >= 0; i-- {
		for j := nt + 3; j >= 0; j-- {
			if i > ns || j > nt {
				match[i][j] = tb.ff
				continue
			}
			sEnd := tb.Not(tb.Ult(I(i), s.len))
			tEnd := tb.Not(tb.Ult(I(j), t.len))
			var step *Term = tb.ff
			if i < ns && j < nt {
				sb := e.byteAt(s, i)
				tb0 := e.byteAt(t, j)
				ls := e.lowerByte(sb)
				ascii := tb.And(tb.Ult(tb0, tb.BV(0x80, 8)), tb.Eq(ls, e.lowerByte(tb0)), match[i+1][j+1])
				longS := tb.And(tb.Eq(tb0, tb.BV(0xc5, 8)), tb.Ult(I(j+1), t.len), tb.Eq(e.byteAt(t, j+1), tb.BV(0xbf, 8)),
					tb.Eq(ls, tb.BV('s', 8)), match[i+1][j+2])
				kelvin := tb.And(tb.Eq(tb0, tb.BV(0xe2, 8)), tb.Ult(I(j+2), t.len), tb.Eq(e.byteAt(t, j+1), tb.BV(0x84, 8)),
					tb.Eq(e.byteAt(t, j+2), tb.BV(0xaa, 8)), tb.Eq(ls, tb.BV('k', 8)), match[i+1][j+3])
				step = tb.Or(ascii, longS, kelvin)
			}
			match[i][j] = tb.Ite(tb.Or(sEnd, tEnd), tb.And(sEnd, tEnd), step)
		}
	}
	return match[0][0]
}

func (e *Exec) hexEncode(s *SliceV) *SliceV {
	tb := e.tb
	n := e.reprCap(s)
	a := &Alloc{}
	nib := func(x *Term) *Term {
		return tb.Ite(tb.Ult(x, tb.BV(10, 8)), tb.Add(x, tb.BV('0', 8)), tb.Add(x, tb.BV('a'-10, 8)))
	}
	for i := 0; i < n; i++ {
		b := e.byteAt(s, i)
		a.b = append(a.b, nib(tb.ZExt(tb.Extract(7, 4, b), 8)), nib(tb.ZExt(tb.Extract(3, 0, b), 8)))
	}
	l := tb.Shl(s.len, tb.BV(1, 64))
	if s.len.isConst() {
		l = tb.BV(2*s.len.i64(), 64)
	}
	return (&SliceV{a: a, len: l, gocap: l, isStr: true, isNil: tb.ff, minLen: 2 * s.minLen}).withMax(2 * n)
}

func (e *Exec) hexNibble(c *Term) (*Term, *Term) {
	tb := e.tb
	isD := tb.And(tb.Ule(tb.BV('0', 8), c), tb.Ule(c, tb.BV('9', 8)))
	isL := tb.And(tb.Ule(tb.BV('a', 8), c), tb.Ule(c, tb.BV('f', 8)))
	isU := tb.And(tb.Ule(tb.BV('A', 8), c), tb.Ule(c, tb.BV('F', 8)))
	v := tb.Ite(isD, tb.Sub(c, tb.BV('0', 8)), tb.Ite(isL, tb.Sub(c, tb.BV('a'-10, 8)), tb.Sub(c, tb.BV('A'-10, 8))))
	return v, tb.Or(isD, isL, isU)
}

// hexDecode models encoding/hex.DecodeString: (bytes, error).
func (e *Exec) hexDecode(s *SliceV) Value {
	tb := e.tb
	n := e.concretize(s.len, e.reprCap(s), "hex string length")
	var oks []*Term
	a := &Alloc{}
	for i := 0; i+1 < n; i += 2 {
		h, ok1 := e.hexNibble(e.byteAt(s, i))
		l, ok2 := e.hexNibble(e.byteAt(s, i+1))
		oks = append(oks, ok1, ok2)
		a.b = append(a.b, tb.BvOr(tb.Shl(h, tb.BV(4, 8)), tb.BvAnd(l, tb.BV(15, 8))))
	}
	if n%2 == 1 {
		// odd length: error (ErrLength, or InvalidByteError if a bad char comes first); result is partial
		ln := tb.BV(int64(n/2), 64)
		return TupleV{&SliceV{a: a, len: ln, gocap: ln, isNil: tb.ff}, e.newErr("hex: odd length")}
	}
	if e.branch(tb.And(oks...)) {
		ln := tb.BV(int64(n/2), 64)
		return TupleV{&SliceV{a: a, len: ln, gocap: ln, isNil: tb.ff, minLen: n / 2}, e.nilErr()}
	}
	// invalid byte: the bytes decoded so far are returned together with the error; callers in scope ignore them
	ln := tb.Sym(e.W.fresh("hexpartial"), 64)
	e.addPC(tb.UleRaw(ln, tb.BV(int64(n/2), 64)))
	tb.DeclareUB(ln, int64(n/2))
	return TupleV{&SliceV{a: a, len: ln, gocap: ln, isNil: tb.ff}, e.newErr("hex: invalid byte")}
}

// ---------- crypto ----------

func (e *Exec) injective(fname string, in, out *Term) {
	tb := e.tb
	for _, k := range e.keccakApps {
		if k.out.w != out.w || k.in.w != in.w || k.out == out {
			continue
		}
		if k.name != fname {
			continue
		}
		e.addPC(tb.Implies(tb.Eq(k.out, out), tb.Eq(k.in, in)))
	}
	e.keccakApps = append(e.keccakApps, keccakApp{in: in, out: out, name: fname})
}

func (e *Exec) keccak(in *SliceV) *SliceV {
	tb := e.tb
	p := e.packBytes(in, hashCap)
	out := tb.UF("keccak256", 256, p)
	e.injective("keccak256", p, out)
	return e.bytesFromTerm(out, 32, false)
}

func (e *Exec) ecrecover(hash, sig *SliceV) Value {
	tb := e.tb
	nilBytes := &SliceV{len: tb.BV(0, 64), gocap: tb.BV(0, 64), isNil: tb.tt}
	if !e.branch(tb.Eq(sig.len, tb.BV(65, 64))) {
		return TupleV{nilBytes, e.newErr("invalid signature length")}
	}
	if !e.branch(tb.Eq(hash.len, tb.BV(32, 64))) {
		return TupleV{nilBytes, e.newErr("invalid message length")}
	}
	if e.branch(tb.Not(tb.Ult(e.byteAt(sig, 64), tb.BV(4, 8)))) {
		return TupleV{nilBytes, e.newErr("invalid signature recovery id")}
	}
	var hp, sp []*Term
	for i := 0; i < 32; i++ {
		hp = append(hp, e.byteAt(hash, i))
	}
	for i := 0; i < 65; i++ {
		sp = append(sp, e.byteAt(sig, i))
	}
	h, s := tb.Concat(hp...), tb.Concat(sp...)
	ok := tb.UF("rec_ok", 0, h, s)
	if !e.branch(ok) {
		return TupleV{nilBytes, e.newErr("recovery failed")}
	}
	key := tb.UF("rec_key", 65*8, h, s)
	r := e.bytesFromTerm(key, 65, false)
	// libsecp256k1 serialises uncompressed keys with the 0x04 tag
	e.addPC(tb.Eq(r.a.b[0], tb.BV(4, 8)))
	return TupleV{r, e.nilErr()}
}

// fromHexExact models common.FromHex byte-exactly (strip 0x/0X, left-pad odd lengths with '0', decode
// the longest valid prefix of hex pairs). Used where attester spellings are short literal strings.
func (e *Exec) fromHexExact(s *SliceV) *SliceV {
	tb := e.tb
	n := e.concretize(s.len, e.reprCap(s), "FromHex length")
	start := 0
	if n >= 2 && e.branch(tb.And(tb.Eq(e.byteAt(s, 0), tb.BV('0', 8)), tb.Or(tb.Eq(e.byteAt(s, 1), tb.BV('x', 8)), tb.Eq(e.byteAt(s, 1), tb.BV('X', 8))))) {
		start = 2
	}
	var cs []*Term
	if (n-start)%2 == 1 {
		cs = append(cs, tb.BV('0', 8))
	}
	for i := start; i < n; i++ {
		cs = append(cs, e.byteAt(s, i))
	}
	a := &Alloc{}
	k := 0
	for ; 2*k+1 < len(cs); k++ {
		h, ok1 := e.hexNibble(cs[2*k])
		l, ok2 := e.hexNibble(cs[2*k+1])
		if !e.branch(tb.And(ok1, ok2)) {
			break
		}
		a.b = append(a.b, tb.BvOr(tb.Shl(h, tb.BV(4, 8)), tb.BvAnd(l, tb.BV(15, 8))))
	}
	ln := tb.BV(int64(k), 64)
	return (&SliceV{a: a, len: ln, gocap: ln, isNil: tb.ff, minLen: k}).withMax(k)
}

func (e *Exec) fromHex(s *SliceV) *SliceV {
	tb := e.tb
	if e.exactFromHex {
		return e.fromHexExact(s)
	}
	p := e.packBytes(s, strCap)
	l := tb.UF("fromhex_len", 64, p)
	e.addPC(tb.UleRaw(l, tb.BV(65, 64)))
	tb.DeclareUB(l, 65)
	bs := tb.UF("fromhex_bytes", 65*8, p)
	r := e.bytesFromTerm(bs, 65, false)
	r.len, r.gocap, r.minLen = l, l, 0
	// empty string (and "0x") decode to nothing
	e.addPC(tb.Implies(tb.Eq(s.len, tb.BV(0, 64)), tb.Eq(l, tb.BV(0, 64))))
	return r
}

// ---------- bech32 ----------

func (e *Exec) b32Encode(data *SliceV) *SliceV {
	tb := e.tb
	n := e.concretize(data.len, e.reprCap(data), "bech32 data length")
	if n > addrCap {
		e.fail("bech32 encode of %d bytes exceeds model capacity", n)
	}
	p := e.packBytes(data, addrCap)
	out := tb.UF("b32enc", 8*b32EncLen, p)
	// "cosmos" + "1" + ceil(8n/5) + 6 checksum characters
	L := 6 + 1 + (8*n+4)/5 + 6
	if L > b32EncLen {
		e.fail("bech32 string too long for model")
	}
	s := e.bytesFromTerm(out, b32EncLen, true)
	l := tb.BV(int64(L), 64)
	s.len, s.gocap, s.minLen = l, l, L
	s.tag = "b32enc"
	// contract: decoding an encoding gives the data back
	sp := e.packBytes(s, strCap)
	e.addPC(tb.UF("b32ok", 0, sp))
	e.addPC(tb.Eq(tb.UF("b32declen", 64, sp), tb.BV(int64(n), 64)))
	e.addPC(tb.Eq(tb.UF("b32dec", 8*addrCap, sp), tb.Extract(8*addrCap-1, 0, p)))
	return s
}

func (e *Exec) accAddressFromBech32(s *SliceV) Value {
	tb := e.tb
	nilBytes := &SliceV{len: tb.BV(0, 64), gocap: tb.BV(0, 64), isNil: tb.tt}
	sp := e.packBytes(s, strCap)
	ok := tb.UF("b32ok", 0, sp)
	// any bech32 string has at least 8 characters (abstract account strings, whose validity is an
	// uninterpreted predicate realised natively by the replay run-time, are exempt)
	if len(e.abstractAddr) == 0 {
		e.addPC(tb.Implies(tb.Ult(s.len, tb.BV(8, 64)), tb.Not(ok)))
	}
	if !e.branch(ok) {
		return TupleV{nilBytes, e.newErr("invalid bech32 address")}
	}
	l := tb.UF("b32declen", 64, sp)
	e.addPC(tb.And(tb.Ule(tb.BV(1, 64), l), tb.UleRaw(l, tb.BV(addrCap, 64))))
	tb.DeclareUB(l, addrCap)
	bs := tb.UF("b32dec", 8*addrCap, sp)
	r := e.bytesFromTerm(bs, addrCap, false)
	r.len, r.gocap, r.minLen = l, l, 1
	return TupleV{r, e.nilErr()}
}

// ---------- coins ----------

func (e *Exec) validDenom(s *SliceV) *Term {
	tb := e.tb
	n := e.reprCap(s)
	isAlpha := func(b *Term) *Term {
		return tb.Or(tb.And(tb.Ule(tb.BV('a', 8), b), tb.Ule(b, tb.BV('z', 8))), e.isUpper(b))
	}
	isRest := func(b *Term) *Term {
		return tb.Or(isAlpha(b), tb.And(tb.Ule(tb.BV('0', 8), b), tb.Ule(b, tb.BV('9', 8))),
			tb.Eq(b, tb.BV('/', 8)), tb.Eq(b, tb.BV(':', 8)), tb.Eq(b, tb.BV('.', 8)), tb.Eq(b, tb.BV('_', 8)), tb.Eq(b, tb.BV('-', 8)))
	}
	cs := []*Term{tb.Ule(tb.BV(3, 64), s.len), tb.Ule(s.len, tb.BV(128, 64))}
	for i := 0; i < n; i++ {
		var c *Term
		if i == 0 {
			c = isAlpha(e.byteAt(s, 0))
		} else {
			c = isRest(e.byteAt(s, i))
		}
		cs = append(cs, tb.Implies(tb.Ult(tb.BV(int64(i), 64), s.len), c))
	}
	return tb.And(cs...)
}

// math.Int is struct{ i *big.Int }
func (e *Exec) intBig(v Value, what string) (*BigV, bool) {
	sv, ok := v.(*StructV)
	if !ok || len(sv.f) != 1 {
		e.fail("%s: math.Int expected, got %T", what, v)
	}
	p, ok := sv.f[0].v.(*PtrV)
	if !ok {
		e.fail("%s: math.Int payload %T", what, sv.f[0].v)
	}
	if p.c == nil {
		return nil, false
	}
	return p.c.v.(*BigV), true
}

func (e *Exec) newCoin(denom, amount Value) Value {
	tb := e.tb
	d := e.asBytes(denom, "NewCoin")
	// Coin.Validate: ValidateDenom, amount non-nil, amount non-negative; NewCoin panics on error
	e.panicIf(tb.Not(e.validDenom(d)), "NewCoin: invalid denom")
	b, ok := e.intBig(amount, "NewCoin")
	if !ok {
		e.goPanicNow("NewCoin: amount is nil")
	}
	e.panicIf(tb.Slt(b.v, tb.BV(0, bigW)), "NewCoin: negative coin amount")
	return &StructV{f: []*Cell{{v: d}, {v: copyVal(amount)}}}
}

func (e *Exec) newCoins(arg Value) Value {
	tb := e.tb
	gs, ok := arg.(*GSliceV)
	if !ok {
		e.fail("NewCoins arg %T", arg)
	}
	if len(gs.e) > 1 {
		e.fail("NewCoins with %d coins not modelled", len(gs.e))
	}
	out := &GSliceV{}
	for _, c := range gs.e {
		coin := c.v.(*StructV)
		b, ok := e.intBig(coin.f[1].v, "NewCoins")
		if !ok {
			e.goPanicNow("NewCoins: nil amount")
		}
		// sanitizeCoins drops zero coins; Validate panics on invalid denom / non-positive amount
		if e.branch(tb.Eq(b.v, tb.BV(0, bigW))) {
			continue
		}
		e.panicIf(tb.Not(e.validDenom(coin.f[0].v.(*SliceV))), "NewCoins: invalid denom")
		e.panicIf(tb.Slt(b.v, tb.BV(0, bigW)), "NewCoins: negative amount")
		out.e = append(out.e, &Cell{v: copyVal(coin)})
	}
	return out
}

// sync.Map as an association list (single-threaded execution: no interleavings inside a handler).
func (e *Exec) syncMapMethod(m string, args []Value) Value {
	tb := e.tb
	p, ok := args[0].(*PtrV)
	if !ok || p.c == nil {
		e.goPanicNow("nil *sync.Map")
	}
	if e.syncMaps == nil {
		e.syncMaps = map[*Cell]*MapV{}
	}
	mv := e.syncMaps[p.c]
	if mv == nil {
		mv = &MapV{}
		e.syncMaps[p.c] = mv
	}
	find := func(k Value) int {
		for i := len(mv.entries) - 1; i >= 0; i-- {
			if e.branch(e.keyEq(mv.entries[i].k, k)) {
				return i
			}
		}
		return -1
	}
	switch m {
	case "Load":
		if i := find(args[1]); i >= 0 {
			return TupleV{copyVal(mv.entries[i].v.v), tb.tt}
		}
		return TupleV{&IfaceV{}, tb.ff}
	case "Store":
		if p.c.global {
			e.noteGlobalWrite("sync.Map.Store")
		}
		if i := find(args[1]); i >= 0 {
			mv.entries[i].v.v = copyVal(args[2])
		} else {
			mv.entries = append(mv.entries, mapEntry{k: args[1], v: &Cell{v: copyVal(args[2])}})
		}
		return nil
	case "LoadOrStore":
		if i := find(args[1]); i >= 0 {
			return TupleV{copyVal(mv.entries[i].v.v), tb.tt}
		}
		if p.c.global {
			e.noteGlobalWrite("sync.Map.LoadOrStore")
		}
		mv.entries = append(mv.entries, mapEntry{k: args[1], v: &Cell{v: copyVal(args[2])}})
		return TupleV{args[2], tb.ff}
	case "Delete":
		if i := find(args[1]); i >= 0 {
			mv.entries = append(mv.entries[:i:i], mv.entries[i+1:]...)
		}
		return nil
	case "LoadAndDelete":
		if i := find(args[1]); i >= 0 {
			v := copyVal(mv.entries[i].v.v)
			mv.entries = append(mv.entries[:i:i], mv.entries[i+1:]...)
			return TupleV{v, tb.tt}
		}
		return TupleV{&IfaceV{}, tb.ff}
	}
	e.fail("sync.Map method %s not modelled", m)
	return nil
}

// generatedUnmarshal models the gogoproto-generated (*T).Unmarshal(dAtA): unlike codec.Unmarshal it
// does NOT reset the receiver, and proto3 omits zero-valued fields from the encoding, so a field that
// is zero in the encoded value keeps whatever the receiver held before (repeated fields append).
func (e *Exec) generatedUnmarshal(args []Value) Value {
	tb := e.tb
	p, ok := args[0].(*PtrV)
	if !ok || p.c == nil {
		e.goPanicNow("Unmarshal on nil message")
	}
	dst, ok := p.c.v.(*StructV)
	if !ok {
		e.fail("generated Unmarshal: receiver %T", p.c.v)
	}
	bz := e.asBytes(args[1], "Unmarshal")
	if bz.blob == nil {
		if e.branch(tb.Not(tb.Eq(bz.len, tb.BV(0, 64)))) {
			e.fail("generated Unmarshal of raw (non-module-written) bytes")
		}
		return e.nilErr()
	}
	src, ok := bz.blob.(*StructV)
	if !ok || !sameShape(dst, src) {
		e.fail("generated Unmarshal: encoded value of a different message type")
	}
	e.mergeStruct(dst, src)
	return e.nilErr()
}

func (e *Exec) mergeStruct(dst, src *StructV) {
	tb := e.tb
	for i := range dst.f {
		switch s := src.f[i].v.(type) {
		case *Term:
			d := dst.f[i].v.(*Term)
			dst.f[i].v = tb.Ite(e.isZeroVal(s), d, s)
		case *SliceV:
			d := dst.f[i].v.(*SliceV)
			if e.branch(tb.Eq(s.len, tb.BV(0, 64))) {
				dst.f[i].v = d
			} else {
				dst.f[i].v = e.snapshotBytes(s)
				if s.isStr {
					dst.f[i].v.(*SliceV).isStr = true
				}
			}
		case *StructV:
			if d, ok := dst.f[i].v.(*StructV); ok {
				e.mergeStruct(d, s)
			}
		case *GSliceV:
			d, _ := dst.f[i].v.(*GSliceV)
			n := &GSliceV{}
			if d != nil {
				n.e = append(n.e, d.e...)
			}
			cl := newCloner(false)
			for _, c := range s.e {
				n.e = append(n.e, cl.cell(c))
			}
			dst.f[i].v = n
		case *PtrV:
			if s.c != nil {
				cl := newCloner(false)
				dst.f[i].v = cl.val(s)
			}
		default:
			e.fail("generated Unmarshal: field of kind %T", s)
		}
	}
}
