package main

// symgo: solver-based checking of circlefin/noble-cctp. See /verif/DESIGN.md.
//
//   symgo check <PROPERTY> quick|thorough      decide one property, write evidence/<id>.json
//   symgo run <HarnessName>...                 run individual harnesses (development)
//   symgo replay <file.json>                   replay a counterexample natively
//   symgo list                                 list harness functions found in /verif/harness

import (
	"encoding/json"
	"flag"
	"fmt"
	"os"
	"os/exec"
	"path/filepath"
	"regexp"
	"runtime"
	"sort"
	"strconv"
	"strings"
	"time"

	"golang.org/x/tools/go/packages"
	"golang.org/x/tools/go/ssa"
	"golang.org/x/tools/go/ssa/ssautil"
)

const repoMod = "github.com/circlefin/noble-cctp"

// verifDir holds harness/, spec/ and known_findings.txt (VERIF_DIR points development runs at a copy).
var verifDir = envStr("VERIF_DIR", "/verif")

// repoDir is the tree under analysis (/repo; VERIF_REPO points development runs at a scratch
// worktree), outBase holds scratch output and evidenceDir the evidence files.
var (
	repoDir     = envStr("VERIF_REPO", "/repo")
	outBase     = envStr("VERIF_OUT", "/verif/out")
	evidenceDir = envStr("VERIF_EVIDENCE", "/verif/evidence")
)

func envStr(name, def string) string {
	if v := os.Getenv(name); v != "" {
		return v
	}
	return def
}

var goEnv = []string{"GOWORK=off", "GOFLAGS=-mod=mod", "GOPROXY=off", "GOSUMDB=off", "GOTOOLCHAIN=local"}

// harness source dir -> directory inside the repository where it is overlaid
var harnessDirs = map[string]string{
	"verifrt": "x/cctp/verifrt",
	"types":   "x/cctp/types",
	"keeper":  "x/cctp/keeper",
	"cctp":    "x/cctp",
	"cli":     "x/cctp/client/cli",
}

func overlayFiles(withTests bool) map[string]string {
	m := map[string]string{}
	for d, target := range harnessDirs {
		files, _ := filepath.Glob(filepath.Join(verifDir, "harness", d, "*.go"))
		for _, f := range files {
			base := filepath.Base(f)
			isTest := strings.HasSuffix(base, "_test.go")
			if isTest && !withTests {
				continue
			}
			name := base
			if d != "verifrt" && !strings.HasPrefix(name, "zz_verif_") {
				name = "zz_verif_" + name
			}
			m[filepath.Join(repoDir, target, name)] = f
		}
	}
	return m
}

func loadProgram(pkgDirs []string) (*Program, error) {
	t0 := time.Now()
	ov := map[string][]byte{}
	for virt, real := range overlayFiles(false) {
		b, err := os.ReadFile(real)
		if err != nil {
			return nil, err
		}
		ov[virt] = b
	}
	cfg := &packages.Config{
		Mode:    packages.LoadAllSyntax,
		Dir:     repoDir,
		Env:     append(os.Environ(), goEnv...),
		Overlay: ov,
	}
	var pats []string
	for _, d := range pkgDirs {
		pats = append(pats, "./"+harnessDirs[d])
	}
	pkgs, err := packages.Load(cfg, pats...)
	if err != nil {
		return nil, err
	}
	nerr := 0
	packages.Visit(pkgs, nil, func(p *packages.Package) {
		for _, e := range p.Errors {
			if nerr < 20 {
				fmt.Fprintln(os.Stderr, "load error:", e)
			}
			nerr++
		}
	})
	if nerr > 0 {
		return nil, fmt.Errorf("%d package load errors (the repository or a harness does not compile)", nerr)
	}
	prog, _ := ssautil.AllPackages(pkgs, ssa.InstantiateGenerics)
	prog.Build()
	P := &Program{prog: prog, pkgs: map[string]*ssa.Package{}, repoMod: repoMod}
	for _, p := range prog.AllPackages() {
		P.pkgs[p.Pkg.Path()] = p
	}
	P.loadSecs = time.Since(t0).Seconds()
	return P, nil
}

type harnessRef struct {
	dir          string
	name         string
	fn           *ssa.Function
	prop         string
	thoroughOnly bool
}

var harnessRe = regexp.MustCompile(`^Harness(T?)_(C[0-9]+)_`)

func findHarnesses(P *Program, dirs []string) []harnessRef {
	var out []harnessRef
	for _, d := range dirs {
		if d == "verifrt" {
			continue
		}
		p := P.pkgs[repoMod+"/"+harnessDirs[d]]
		if p == nil {
			continue
		}
		for name, m := range p.Members {
			fn, ok := m.(*ssa.Function)
			if !ok {
				continue
			}
			mm := harnessRe.FindStringSubmatch(name)
			if mm == nil {
				continue
			}
			out = append(out, harnessRef{dir: d, name: name, fn: fn, prop: mm[2], thoroughOnly: mm[1] == "T"})
		}
	}
	sort.Slice(out, func(i, j int) bool { return out[i].name < out[j].name })
	return out
}

// harness source scan (cheap; used to decide which packages to load for a property)
func dirsForProperty(prop string) []string {
	var dirs []string
	for d := range harnessDirs {
		if d == "verifrt" {
			continue
		}
		files, _ := filepath.Glob(filepath.Join(verifDir, "harness", d, "*.go"))
		for _, f := range files {
			if strings.HasSuffix(f, "_test.go") {
				continue
			}
			b, _ := os.ReadFile(f)
			if regexp.MustCompile(`func HarnessT?_` + prop + `_`).Match(b) {
				dirs = append(dirs, d)
				break
			}
		}
	}
	sort.Strings(dirs)
	return dirs
}

func envInt(name string, def int) int {
	if v := os.Getenv(name); v != "" {
		if n, err := strconv.Atoi(v); err == nil {
			return n
		}
	}
	return def
}

func main() {
	if len(os.Args) < 2 {
		fmt.Fprintln(os.Stderr, "usage: symgo check <ID> quick|thorough | run <harness>... | replay <file> | list")
		os.Exit(2)
	}
	switch os.Args[1] {
	case "check":
		if len(os.Args) < 4 {
			fmt.Fprintln(os.Stderr, "usage: symgo check <ID> quick|thorough")
			os.Exit(2)
		}
		os.Exit(cmdCheck(os.Args[2], os.Args[3]))
	case "run":
		os.Exit(cmdRun(os.Args[2:]))
	case "replay":
		os.Exit(cmdReplay(os.Args[2]))
	case "warm":
		os.MkdirAll(outBase, 0o755)
		ovPath := filepath.Join(outBase, "overlay.warm.json")
		writeOverlayJSON(ovPath)
		defer os.Remove(ovPath)
		var pk []string
		for d, t := range harnessDirs {
			if d != "verifrt" {
				pk = append(pk, "./"+t)
			}
		}
		cmd := exec.Command("go", append([]string{"test", "-vet=off", "-count=1", "-overlay", ovPath, "-run", "^$"}, pk...)...)
		cmd.Dir = repoDir
		cmd.Env = append(os.Environ(), goEnv...)
		out, err := cmd.CombinedOutput()
		fmt.Print(string(out))
		if err != nil {
			fmt.Fprintln(os.Stderr, "warm-up failed:", err)
			os.Exit(1)
		}
	case "list":
		var dirs []string
		for d := range harnessDirs {
			dirs = append(dirs, d)
		}
		P, err := loadProgram(dirs)
		if err != nil {
			fmt.Fprintln(os.Stderr, err)
			os.Exit(2)
		}
		for _, h := range findHarnesses(P, dirs) {
			fmt.Println(h.prop, h.dir, h.name)
		}
	default:
		fmt.Fprintln(os.Stderr, "unknown command")
		os.Exit(2)
	}
}

func cmdRun(args []string) int {
	fs := flag.NewFlagSet("run", flag.ExitOnError)
	workers := fs.Int("j", runtime.NumCPU(), "workers")
	unwind := fs.Int("unwind", 400, "loop unwinding bound")
	maxPaths := fs.Int("maxpaths", 200000, "path budget")
	tier := fs.Int("tier", 0, "0 quick 1 thorough")
	solver := fs.String("solver", "z3", "z3|z3-new|cvc5")
	verbose := fs.Bool("v", false, "verbose")
	tdir := fs.String("transcripts", "", "directory for solver transcripts")
	fs.Parse(args)
	names := fs.Args()
	var dirs []string
	for d := range harnessDirs {
		if d != "verifrt" {
			dirs = append(dirs, d)
		}
	}
	// restrict load to the dirs that define the named harnesses
	need := map[string]bool{}
	for _, d := range dirs {
		files, _ := filepath.Glob(filepath.Join(verifDir, "harness", d, "*.go"))
		for _, f := range files {
			b, _ := os.ReadFile(f)
			for _, n := range names {
				if strings.Contains(string(b), "func "+n+"(") {
					need[d] = true
				}
			}
		}
	}
	dirs = nil
	for d := range need {
		dirs = append(dirs, d)
	}
	sort.Strings(dirs)
	P, err := loadProgram(dirs)
	if err != nil {
		fmt.Fprintln(os.Stderr, err)
		return 2
	}
	fmt.Printf("load+build %.1fs\n", P.loadSecs)
	hs := findHarnesses(P, dirs)
	rc := 0
	for _, n := range names {
		var h *harnessRef
		for i := range hs {
			if hs[i].name == n {
				h = &hs[i]
			}
		}
		if h == nil {
			fmt.Fprintln(os.Stderr, "no harness", n)
			return 2
		}
		res := explore(P, h.fn, ExploreOpts{Workers: *workers, Unwind: *unwind, MaxPaths: *maxPaths, TimeoutMs: 60000, Tier: *tier, SolverKind: *solver, TranscriptDir: *tdir})
		printResult(res, *verbose)
		if res.Err != "" {
			rc = 2
		} else if len(res.Violations) > 0 && rc == 0 {
			rc = 1
		}
	}
	return rc
}

func printResult(res *HarnessResult, verbose bool) {
	fmt.Printf("== %s: paths=%d ssa_steps=%d queries=%d (sat %d unsat %d unknown %d) solver=%.2fs wall=%.2fs\n",
		res.Name, res.Paths, res.Steps, res.Queries, res.Sat, res.Unsat, res.UnknownQ, res.SolverSecs, res.WallSecs)
	var ends []string
	for k, v := range res.Ends {
		ends = append(ends, fmt.Sprintf("%s×%d", k, v))
	}
	sort.Strings(ends)
	for _, s := range ends {
		if len(s) > 240 {
			s = s[:240] + "…"
		}
		fmt.Println("   end:", s)
	}
	labels := map[string]bool{}
	for l := range res.Proved {
		labels[l] = true
	}
	for l := range res.Violated {
		labels[l] = true
	}
	for l := range res.Unknown {
		labels[l] = true
	}
	var ls []string
	for l := range labels {
		ls = append(ls, l)
	}
	sort.Strings(ls)
	for _, l := range ls {
		fmt.Printf("   assert %-44s proved=%d violated=%d unknown=%d\n", l, res.Proved[l], res.Violated[l], res.Unknown[l])
	}
	var cs []string
	for c, n := range res.Covers {
		cs = append(cs, fmt.Sprintf("%s×%d", c, n))
	}
	sort.Strings(cs)
	if len(cs) > 0 {
		fmt.Println("   covers:", strings.Join(cs, " "))
	}
	for ev := range res.Events {
		fmt.Println("   event:", ev)
	}
	for p, n := range res.Panics {
		fmt.Printf("   panic-caught×%d: %s\n", n, p)
	}
	for n := range res.InitNotes {
		fmt.Println("   init-note:", n)
	}
	if res.Err != "" {
		fmt.Println("   INCONCLUSIVE:", res.Err)
	}
	seen := map[string]int{}
	for _, v := range res.Violations {
		seen[v.Label]++
		if seen[v.Label] > 2 && !verbose {
			continue
		}
		js, _ := json.Marshal(v.Witness)
		s := string(js)
		if len(s) > 600 && !verbose {
			s = s[:600] + "…"
		}
		fmt.Printf("   VIOLATED %s (%s) at %s\n      %s\n", v.Label, v.PathID, v.Site, s)
	}
	if verbose {
		for _, s := range res.Samples {
			js, _ := json.Marshal(s)
			fmt.Println("   sample:", string(js))
		}
	}
}

// ---------- native replay ----------

func writeOverlayJSON(path string) error {
	ov := struct {
		Replace map[string]string
	}{Replace: overlayFiles(true)}
	b, _ := json.MarshalIndent(ov, "", " ")
	return os.WriteFile(path, b, 0o644)
}

type replayFile struct {
	Harness string            `json:"harness"`
	Label   string            `json:"label"`
	Values  map[string]string `json:"values"`
	Probes  map[string]string `json:"probes"`
	Note    string            `json:"note"`
	Dir     string            `json:"dir"`
}

type replayOutcome struct {
	FailedAsserts []string          `json:"failed_asserts"`
	PassedAsserts []string          `json:"passed_asserts"`
	AssumeFailed  bool              `json:"assume_failed"`
	Probes        map[string]string `json:"probes"`
	Covers        []string          `json:"covers"`
	Missing       []string          `json:"missing_values"`
	Panic         string            `json:"panic"`
}

// runReplays runs every replay file of one harness package natively and returns the outcomes by file.
// raceLabel marks the replay files that must run under the race detector: violations of the
// concurrent-instances assertion (the file name carries the label).
const raceLabel = "concurrent-instances-share-no-written-memory"

// raceWitnesses (thorough tier): the path witnesses of the concurrent-instances harnesses are replayed
// under the race detector as well, so a race the engine did not predict shows up as a mismatch.
var raceWitnesses bool

func runReplays(dir string, files []string) (map[string]*replayOutcome, string, error) {
	var plain, raced []string
	for _, f := range files {
		if b := filepath.Base(f); strings.Contains(b, raceLabel) || (raceWitnesses && strings.Contains(b, "_C18_Concurrent_")) {
			raced = append(raced, f)
		} else {
			plain = append(plain, f)
		}
	}
	// counterexample replays get a process each: package-level memory written by the code under test
	// (a memoised value, a cache) must not leak from one replay into the next. Path witnesses share
	// one process (on a tree where the property holds there is no such memory to leak).
	type grp struct {
		files []string
		race  bool
	}
	var groups []grp
	var wit []string
	for _, f := range plain {
		if strings.Contains(filepath.Base(f), ".witness.") {
			wit = append(wit, f)
		} else {
			groups = append(groups, grp{[]string{f}, false})
		}
	}
	if len(wit) > 0 {
		groups = append([]grp{{wit, false}}, groups...)
	}
	var racedWit []string
	for _, f := range raced {
		if strings.Contains(filepath.Base(f), ".witness.") {
			racedWit = append(racedWit, f)
		} else {
			groups = append(groups, grp{[]string{f}, true})
		}
	}
	if len(racedWit) > 0 {
		groups = append(groups, grp{racedWit, true})
	}
	res := map[string]*replayOutcome{}
	var outs []string
	var firstErr error
	for _, g := range groups {
		r, out, err := runReplayGroup(dir, g.files, g.race)
		for k, v := range r {
			res[k] = v
		}
		outs = append(outs, out)
		if err != nil && firstErr == nil {
			firstErr = err
		}
	}
	return res, strings.Join(outs, "\n"), firstErr
}

func runReplayGroup(dir string, files []string, race bool) (map[string]*replayOutcome, string, error) {
	outDir := outBase
	os.MkdirAll(outDir, 0o755)
	tag := fmt.Sprintf("%d.%s", os.Getpid(), dir)
	if race {
		tag += ".race"
	}
	ovPath := filepath.Join(outDir, "overlay."+tag+".json")
	if err := writeOverlayJSON(ovPath); err != nil {
		return nil, "", err
	}
	defer os.Remove(ovPath)
	listPath := filepath.Join(outDir, "replaylist."+tag+".txt")
	os.WriteFile(listPath, []byte(strings.Join(files, "\n")), 0o644)
	defer os.Remove(listPath)
	args := []string{"test", "-vet=off", "-count=1", "-overlay", ovPath, "-run", "^TestVerifReplay$", "-timeout", "90m"}
	env := append(append(os.Environ(), goEnv...), "VERIF_REPLAY_LIST="+listPath)
	if race {
		// the detector's reports go to files the harness runtime inspects (verifrt.Raced)
		logPath := filepath.Join(outDir, "racelog."+tag)
		old, _ := filepath.Glob(logPath + ".*")
		for _, o := range old {
			os.Remove(o)
		}
		defer func() {
			left, _ := filepath.Glob(logPath + ".*")
			for _, o := range left {
				os.Remove(o)
			}
		}()
		args = append(args, "-race")
		env = append(env, "GORACE=log_path="+logPath, "CGO_ENABLED=1")
	}
	cmd := exec.Command("go", append(args, "./"+harnessDirs[dir])...)
	cmd.Dir = repoDir
	cmd.Env = env
	out, err := cmd.CombinedOutput()
	res := map[string]*replayOutcome{}
	for _, f := range files {
		b, rerr := os.ReadFile(f + ".out")
		if rerr != nil {
			continue
		}
		o := &replayOutcome{}
		if json.Unmarshal(b, o) == nil {
			res[f] = o
		}
	}
	if err != nil && len(res) < len(files) {
		return res, string(out), fmt.Errorf("native replay run failed: %v", err)
	}
	return res, string(out), nil
}

func cmdReplay(path string) int {
	b, err := os.ReadFile(path)
	if err != nil {
		fmt.Fprintln(os.Stderr, err)
		return 2
	}
	rf := &replayFile{}
	if err := json.Unmarshal(b, rf); err != nil {
		fmt.Fprintln(os.Stderr, err)
		return 2
	}
	abs, _ := filepath.Abs(path)
	res, out, err := runReplays(rf.Dir, []string{abs})
	if err != nil {
		fmt.Println(out)
		fmt.Fprintln(os.Stderr, err)
		return 2
	}
	o := res[abs]
	if o == nil {
		fmt.Println(out)
		fmt.Fprintln(os.Stderr, "no outcome produced")
		return 2
	}
	js, _ := json.MarshalIndent(o, "", " ")
	fmt.Println(string(js))
	for _, l := range o.FailedAsserts {
		if l == rf.Label {
			fmt.Printf("REPRODUCED: assertion %s fails natively in %s\n", rf.Label, rf.Harness)
			return 1
		}
	}
	if rf.Label == "uncaught-panic" && o.Panic != "" {
		fmt.Printf("REPRODUCED: %s panics natively: %s\n", rf.Harness, o.Panic)
		return 1
	}
	fmt.Println("not reproduced")
	return 0
}
