package main

// SSA symbolic interpreter. One Exec executes ONE path of a harness function; paths are
// explored by re-execution from a recorded decision prefix (see run.go).

import (
	"fmt"
	"go/constant"
	"go/token"
	"go/types"
	"math/big"
	"sort"
	"strings"

	"golang.org/x/tools/go/ssa"
)

// control-flow signals (Go panics used for non-local exit)
type pathEnd struct{ reason string }     // path abandoned (infeasible / assume false)
type goPanic struct{ site, what string } // a Go run-time panic in the code under execution
type engineErr struct{ msg string }      // unsupported construct / internal error => inconclusive

type decision struct {
	n int   // number of alternatives at this point
	c int   // alternative taken
	v int64 // candidate value (concretize decisions only)
}

type AssertRec struct {
	Label   string
	Outcome string // "proved", "violated", "unknown"
	Witness map[string]string
	PathID  string
	Site    string
}

type Frame struct {
	fn     *ssa.Function
	locals map[ssa.Value]Value
	defers []func()
	caller *Frame
}

type Exec struct {
	W    *Worker
	tb   *TB
	sol  *Solver
	prog *ssa.Program

	decisions []decision // prefix to replay, then extended
	pos       int
	startLen  int
	pending   [][]decision

	pc      []*Term
	globals map[*ssa.Global]*Cell
	inInit  bool
	steps   int
	depth   int
	frame   *Frame

	nondets    []*Term           // symbols whose model values go to witnesses
	nondetInfo map[string]string // name -> kind
	asserts    []AssertRec
	probes     []probeRec
	funcs      map[string]bool
	assumes    []string
	events     []string        // engine-level observations (global writes, ambient calls...)
	goroutines []func()        // spawned, not yet run (see joinGoroutines)
	panics     []*pendingPanic // Go panics whose deferred calls are running (innermost last)
	// package-level memory accessed while tracking is on (verifrt.Parallel): object -> site
	trackAcc     bool
	accR, accW   map[interface{}]string
	lockDepth    int  // mutexes held (accesses under a lock are synchronised)
	raced        bool // the last Parallel found conflicting unsynchronised accesses
	envs         []*EnvState
	initRun      map[*ssa.Package]bool
	lenBounds    map[int]int64
	exactFromHex bool
	initPkg      *ssa.Package
	onceDone     map[*Cell]bool
	syncMaps     map[*Cell]*MapV
	namePrefix   string
	prefixStack  []string
	choiceMemo   map[string]int
	abstractAddr map[int]bool
	pcSet        map[int]bool
	subst        map[int]*Term
	simpMemo     map[int]*Term
	initNotes    []string
	tier         int
	nondetRecs   []NondetRec
	covers       []string
	lastPanic    string
	panicsCaught []string
	keccakApps   []keccakApp
	axioms       []*Term
	choiceLog    []string
	allocSeq     int
	catchDepth   int
	unwind       int
	callStack    []string
}

type probeRec struct {
	Label string
	T     *Term
	S     *SliceV
	Const string
}

type keccakApp struct {
	in   *Term // packed input (len ++ bytes)
	out  *Term
	name string
}

func (e *Exec) fail(format string, a ...interface{}) {
	panic(engineErr{fmt.Sprintf(format, a...) + " @ " + e.where()})
}

func (e *Exec) where() string {
	if len(e.callStack) == 0 {
		return "?"
	}
	n := len(e.callStack)
	lo := n - 4
	if lo < 0 {
		lo = 0
	}
	return strings.Join(e.callStack[lo:], " > ")
}

// ---------- branching ----------

// choose picks one of n alternatives whose guard conditions are conds[i] (mutually exclusive
// guards not required: alternative i means conds[i] holds AND all previous do not, when ordered=true).
func (e *Exec) addPC(c *Term) {
	if c.isTrue() {
		return
	}
	if e.pcSet == nil {
		e.pcSet = map[int]bool{}
	}
	if e.pcSet[c.id] {
		return
	}
	e.pcSet[c.id] = true
	if c.op == "and" {
		for _, a := range c.args {
			e.pcSet[a.id] = true
			e.noteEquality(a)
		}
	}
	e.noteEquality(c)
	e.pc = append(e.pc, c)
}

// noteEquality records sym == const facts of the path condition for constant propagation.
func (e *Exec) noteEquality(c *Term) {
	if c.op != "=" {
		return
	}
	a, b := c.args[0], c.args[1]
	if b.op == "sym" && a.isConst() {
		a, b = b, a
	}
	if a.op == "sym" && b.isConst() {
		if e.subst == nil {
			e.subst = map[int]*Term{}
		}
		e.subst[a.id] = b
		e.simpMemo = nil
	}
}

// simp rewrites t under the known sym == const facts (memoised per path).
func (e *Exec) simp(t *Term) *Term {
	if len(e.subst) == 0 {
		return t
	}
	if e.simpMemo == nil {
		e.simpMemo = map[int]*Term{}
	}
	return e.simpRec(t)
}

func (e *Exec) simpRec(t *Term) *Term {
	switch t.op {
	case "const":
		return t
	case "sym":
		if c, ok := e.subst[t.id]; ok {
			return c
		}
		return t
	}
	if r, ok := e.simpMemo[t.id]; ok {
		return r
	}
	changed := false
	args := make([]*Term, len(t.args))
	for i, a := range t.args {
		args[i] = e.simpRec(a)
		if args[i] != a {
			changed = true
		}
	}
	r := t
	if changed {
		r = e.tb.Rebuild(t, args)
	}
	e.simpMemo[t.id] = r
	return r
}

// known reports whether c is syntactically decided by the path condition.
func (e *Exec) known(c *Term) (val, ok bool) {
	if e.pcSet[c.id] {
		return true, true
	}
	if e.pcSet[e.tb.Not(c).id] {
		return false, true
	}
	return false, false
}

func (e *Exec) feasible(c *Term) bool {
	if c.isFalse() {
		return false
	}
	if slowMs > 0 {
		e.sol.ctx = e.where()
	}
	r, _ := e.sol.check(e.pc, c, nil)
	if r == "unknown" {
		e.fail("solver unknown on feasibility query")
	}
	return r == "sat"
}

// branch forks on a Boolean condition.
func (e *Exec) branch(c *Term) bool {
	if c.w != 0 {
		e.fail("branch on non-bool")
	}
	if c.isConst() {
		return c.isTrue()
	}
	if v, ok := e.known(c); ok {
		return v
	}
	if sc := e.simp(c); sc != c {
		if sc.isConst() {
			return sc.isTrue()
		}
		if v, ok := e.known(sc); ok {
			return v
		}
		c = sc
	}
	if e.pos < len(e.decisions) {
		d := e.decisions[e.pos]
		e.pos++
		if d.c == 1 {
			e.addPC(c)
			return true
		}
		e.addPC(e.tb.Not(c))
		return false
	}
	t := e.feasible(c)
	f := true
	if t {
		f = e.feasible(e.tb.Not(c))
	}
	if !t && !f {
		panic(pathEnd{"infeasible"})
	}
	if t && f {
		alt := append(append([]decision{}, e.decisions...), decision{n: 2, c: 0})
		e.pending = append(e.pending, alt)
	}
	d := decision{n: 2, c: 0}
	if t {
		d.c = 1
	}
	e.decisions = append(e.decisions, d)
	e.pos++
	if t {
		e.addPC(c)
		return true
	}
	e.addPC(e.tb.Not(c))
	return false
}

// choice forks over n unconstrained alternatives (environment nondeterminism with a finite domain).
func (e *Exec) choice(n int, what string) int {
	if n == 1 {
		return 0
	}
	if e.pos < len(e.decisions) {
		d := e.decisions[e.pos]
		e.pos++
		e.choiceLog = append(e.choiceLog, fmt.Sprintf("%s=%d", what, d.c))
		return d.c
	}
	for i := 1; i < n; i++ {
		alt := append(append([]decision{}, e.decisions...), decision{n: n, c: i})
		e.pending = append(e.pending, alt)
	}
	e.decisions = append(e.decisions, decision{n: n, c: 0})
	e.pos++
	e.choiceLog = append(e.choiceLog, fmt.Sprintf("%s=%d", what, 0))
	return 0
}

// concretize enumerates the feasible values of t in [0,max].
func (e *Exec) concretize(t *Term, max int, what string) int {
	if t.isConst() {
		return int(t.i64())
	}
	tb := e.tb
	for iter := 0; iter <= max+1; iter++ {
		if e.pos < len(e.decisions) {
			d := e.decisions[e.pos]
			e.pos++
			c := tb.Eq(t, tb.BV(d.v, t.w))
			if d.c == 1 {
				e.addPC(c)
				return int(d.v)
			}
			e.addPC(tb.Not(c))
			continue
		}
		// ask the solver for a candidate value
		r, vals := e.sol.check(e.pc, nil, []*Term{t})
		if r == "unknown" {
			e.fail("solver unknown in concretize")
		}
		if r == "unsat" {
			panic(pathEnd{"infeasible"})
		}
		if !vals[0].IsInt64() || vals[0].Int64() > int64(max) {
			e.fail("concretize %s: value %s above bound %d", what, vals[0], max)
		}
		v := vals[0].Int64()
		c := tb.Eq(t, tb.BV(v, t.w))
		if e.feasible(tb.Not(c)) {
			alt := append(append([]decision{}, e.decisions...), decision{n: 2, c: 0, v: v})
			e.pending = append(e.pending, alt)
		}
		e.decisions = append(e.decisions, decision{n: 2, c: 1, v: v})
		e.pos++
		e.addPC(c)
		return int(v)
	}
	e.fail("concretize %s: more than %d values", what, max+1)
	return 0
}

func (e *Exec) goPanicNow(what string) {
	site := e.where()
	panic(goPanic{site: site, what: what})
}

// panicIf: Go run-time panic condition.
func (e *Exec) panicIf(c *Term, what string) {
	if e.branch(c) {
		e.goPanicNow(what)
	}
}

// ---------- constants & helpers ----------

func (e *Exec) constBytes(s string, isStr bool) *SliceV {
	a := &Alloc{}
	for i := 0; i < len(s); i++ {
		a.b = append(a.b, e.tb.BV(int64(s[i]), 8))
	}
	n := e.tb.BV(int64(len(s)), 64)
	return &SliceV{a: a, len: n, gocap: n, isStr: isStr, isNil: e.tb.ff, minLen: len(s)}
}

func (e *Exec) constVal(c *ssa.Const) Value {
	if c.Value == nil {
		return e.zero(c.Type())
	}
	if w := width(c.Type()); w >= 0 {
		if w == 0 {
			return e.tb.Bool(constant.BoolVal(c.Value))
		}
		v := constant.ToInt(c.Value)
		bi, ok := new(big.Int).SetString(v.ExactString(), 10)
		if !ok {
			e.fail("const int %s", c.Value)
		}
		return e.tb.BVb(bi, w)
	}
	if c.Value.Kind() == constant.String {
		return e.constBytes(constant.StringVal(c.Value), true)
	}
	if b, ok := c.Type().Underlying().(*types.Basic); ok && (b.Kind() == types.Float64 || b.Kind() == types.Float32) {
		return e.tb.BV(0, 64)
	}
	e.fail("const: %s", c.String())
	return nil
}

func (e *Exec) get(fr *Frame, v ssa.Value) Value {
	switch x := v.(type) {
	case *ssa.Const:
		return e.constVal(x)
	case *ssa.Global:
		return &PtrV{e.globalCell(x)}
	case *ssa.Function:
		return &FuncV{fn: x}
	case *ssa.Builtin:
		return x
	}
	val, ok := fr.locals[v]
	if !ok {
		e.fail("unbound %s in %s", v.Name(), fr.fn)
	}
	return val
}

func (e *Exec) globalCell(g *ssa.Global) *Cell {
	c, ok := e.globals[g]
	if !ok {
		e.W.ensureInit(e, g.Pkg)
		c, ok = e.globals[g]
		if !ok {
			c = &Cell{v: e.zero(g.Type().(*types.Pointer).Elem()), global: true}
			e.globals[g] = c
		}
	}
	return c
}

func (e *Exec) noteGlobalWrite(what string, obj ...interface{}) {
	if e.inInit {
		return
	}
	e.events = append(e.events, "global-write: "+what+" @ "+e.where())
	if e.trackAcc && e.lockDepth == 0 {
		for _, o := range obj {
			e.accW[o] = what + " @ " + e.where()
		}
	}
}

func (e *Exec) noteGlobalRead(obj interface{}) {
	if e.trackAcc && e.lockDepth == 0 && !e.inInit {
		if _, seen := e.accR[obj]; !seen {
			e.accR[obj] = e.where()
		}
	}
}

func (e *Exec) load(p Value) Value {
	switch x := p.(type) {
	case *PtrV:
		if x.c == nil {
			e.goPanicNow("nil pointer dereference")
		}
		if x.c.global && e.trackAcc {
			e.noteGlobalRead(x.c)
		}
		return copyVal(x.c.v)
	case *BytePtrV:
		if x.a.global && e.trackAcc {
			e.noteGlobalRead(x.a)
		}
		return x.a.b[x.i]
	}
	e.fail("load %T", p)
	return nil
}

func (e *Exec) store(p Value, v Value) {
	switch x := p.(type) {
	case *PtrV:
		if x.c == nil {
			e.goPanicNow("nil pointer dereference")
		}
		if x.c.global {
			e.noteGlobalWrite("cell", x.c)
		}
		x.c.v = copyVal(v)
		return
	case *BytePtrV:
		if x.a.global {
			e.noteGlobalWrite("byte", x.a)
		}
		x.a.b[x.i] = v.(*Term)
		return
	}
	e.fail("store %T", p)
}

// ---------- calls ----------

func (e *Exec) callFunc(fn *ssa.Function, args []Value) Value {
	name := fn.String()
	if r, ok := e.intrinsic(name, fn, args); ok {
		return r
	}
	if fn.Blocks == nil {
		if e.inInit {
			return e.zeroResult(fn.Signature)
		}
		e.fail("unmodelled external function %s", name)
	}
	if e.inInit && !e.W.allowedSource(fn) {
		return e.zeroResult(fn.Signature)
	}
	if e.inInit && fn.Pkg != nil && fn.Pkg != e.initPkg && (fn.Name() == "init" || strings.HasPrefix(fn.Name(), "init#")) {
		// initialisers of imported packages are not chained: each package is initialised lazily when
		// one of its own package-level variables is first touched
		return nil
	}
	if !e.inInit && !e.W.allowedSource(fn) {
		e.fail("unmodelled external function %s", name)
	}
	return e.run(fn, args, nil)
}

func (e *Exec) zeroResult(sig *types.Signature) Value {
	r := sig.Results()
	switch r.Len() {
	case 0:
		return nil
	case 1:
		return e.zero(r.At(0).Type())
	}
	var tv TupleV
	for i := 0; i < r.Len(); i++ {
		tv = append(tv, e.zero(r.At(i).Type()))
	}
	return tv
}

func (e *Exec) callValue(fv Value, args []Value) Value {
	switch f := fv.(type) {
	case *FuncV:
		if f.intrinsic != "" {
			r, ok := e.intrinsic(f.intrinsic, nil, append([]Value{f.recv}, args...))
			if !ok {
				e.fail("intrinsic value %s", f.intrinsic)
			}
			return r
		}
		if f.fn == nil {
			e.goPanicNow("call of nil func")
		}
		if f.recv != nil {
			args = append([]Value{f.recv}, args...)
		}
		if len(f.bindings) > 0 {
			return e.run(f.fn, args, f.bindings)
		}
		return e.callFunc(f.fn, args)
	}
	e.fail("call of %T", fv)
	return nil
}

func (e *Exec) invoke(recv Value, method *types.Func, args []Value) Value {
	iv, ok := recv.(*IfaceV)
	if !ok {
		e.fail("invoke on %T", recv)
	}
	if iv.t == nil {
		e.goPanicNow("nil interface method call " + method.Name())
	}
	if mo, ok := iv.v.(*ModelObj); ok {
		return e.modelMethod(mo, method.Name(), args)
	}
	if eo, ok := iv.v.(*ErrObj); ok {
		return e.errMethod(eo, method.Name(), args)
	}
	ms := e.prog.MethodSets.MethodSet(iv.t)
	sel := ms.Lookup(method.Pkg(), method.Name())
	if sel == nil {
		e.fail("method %s not found on %s", method.Name(), iv.t)
	}
	fn := e.prog.MethodValue(sel)
	if fn == nil {
		e.fail("no method value %s on %s", method.Name(), iv.t)
	}
	return e.callFunc(fn, append([]Value{iv.v}, args...))
}

func (e *Exec) doCall(fr *Frame, c *ssa.CallCommon) Value {
	args := make([]Value, 0, len(c.Args)+1)
	for _, a := range c.Args {
		args = append(args, e.get(fr, a))
	}
	if b, ok := c.Value.(*ssa.Builtin); ok {
		return e.builtin(b.Name(), c, args)
	}
	if c.IsInvoke() {
		return e.invoke(e.get(fr, c.Value), c.Method, args)
	}
	if fn := c.StaticCallee(); fn != nil {
		if mc, ok := c.Value.(*ssa.MakeClosure); ok {
			var binds []Value
			for _, b := range mc.Bindings {
				binds = append(binds, e.get(fr, b))
			}
			return e.run(fn, args, binds)
		}
		return e.callFunc(fn, args)
	}
	return e.callValue(e.get(fr, c.Value), args)
}

func (e *Exec) run(fn *ssa.Function, args []Value, bindings []Value) Value {
	e.depth++
	name := fn.String()
	e.callStack = append(e.callStack, shortName(name))
	defer func() { e.depth--; e.callStack = e.callStack[:len(e.callStack)-1] }()
	if e.depth > 80 {
		e.fail("call depth exceeded")
	}
	if fn.Blocks == nil {
		e.fail("no body for %s", name)
	}
	if !e.inInit {
		e.funcs[name] = true
	}
	fr := &Frame{fn: fn, locals: make(map[ssa.Value]Value, 32), caller: e.frame}
	saved := e.frame
	e.frame = fr
	defer func() { e.frame = saved }()
	if len(args) != len(fn.Params) {
		e.fail("arity mismatch calling %s: %d vs %d", name, len(args), len(fn.Params))
	}
	for i, p := range fn.Params {
		fr.locals[p] = args[i]
	}
	for i, fv := range fn.FreeVars {
		fr.locals[fv] = bindings[i]
	}
	return e.execFrom(fr, fn, fn.Blocks[0], name)
}

// pendingPanic is a Go panic whose deferred calls are being run; recover() stops it.
type pendingPanic struct {
	gp        goPanic
	recovered bool
}

// execFrom interprets fn from block blk in frame fr. A Go panic raised below this frame runs the
// frame's deferred calls (last first); if one of them calls recover() the panic stops and the
// function returns through its recover block (named results as the deferred calls left them),
// otherwise it keeps unwinding.
func (e *Exec) execFrom(fr *Frame, fn *ssa.Function, blk *ssa.BasicBlock, name string) (ret Value) {
	depth, frame, stack := e.depth, e.frame, len(e.callStack)
	defer func() {
		r := recover()
		if r == nil {
			return
		}
		gp, isGo := r.(goPanic)
		if !isGo || len(fr.defers) == 0 {
			panic(r)
		}
		e.depth, e.frame = depth, frame
		e.callStack = e.callStack[:stack]
		pp := &pendingPanic{gp: gp}
		e.panics = append(e.panics, pp)
		ds := fr.defers
		fr.defers = nil
		for i := len(ds) - 1; i >= 0; i-- {
			ds[i]()
		}
		e.panics = e.panics[:len(e.panics)-1]
		if !pp.recovered {
			panic(r)
		}
		if fn.Recover != nil {
			ret = e.execFrom(fr, fn, fn.Recover, name)
			return
		}
		ret = e.zeroResult(fn.Signature)
	}()
	var prev *ssa.BasicBlock
	visits := map[*ssa.BasicBlock]int{}
	for {
		visits[blk]++
		if visits[blk] > e.unwind {
			panic(engineErr{fmt.Sprintf("unwinding bound %d exceeded in %s", e.unwind, name)})
		}
		var next *ssa.BasicBlock
		// phis first (parallel assignment)
		nphi := 0
		var phiVals []Value
		for _, ins := range blk.Instrs {
			ph, ok := ins.(*ssa.Phi)
			if !ok {
				break
			}
			nphi++
			var v Value
			for i, p := range blk.Preds {
				if p == prev {
					v = e.get(fr, ph.Edges[i])
				}
			}
			phiVals = append(phiVals, v)
		}
		for i := 0; i < nphi; i++ {
			fr.locals[blk.Instrs[i].(*ssa.Phi)] = phiVals[i]
		}
		for _, ins := range blk.Instrs[nphi:] {
			e.steps++
			if e.inInit {
				// package initialisers run leniently: an instruction the engine cannot execute
				// (registration of protobuf types, third-party tables...) leaves a zero value behind
				if _, isCtl := ins.(*ssa.If); !isCtl {
					if _, isJ := ins.(*ssa.Jump); !isJ {
						if _, isR := ins.(*ssa.Return); !isR {
							if e.lenientInstr(fr, ins) {
								continue
							}
						}
					}
				}
			}
			switch in := ins.(type) {
			case *ssa.Alloc:
				fr.locals[in] = &PtrV{&Cell{v: e.zero(in.Type().(*types.Pointer).Elem()), global: e.inInit}}
			case *ssa.UnOp:
				fr.locals[in] = e.unop(fr, in)
			case *ssa.Store:
				e.store(e.get(fr, in.Addr), e.get(fr, in.Val))
			case *ssa.FieldAddr:
				p, ok := e.get(fr, in.X).(*PtrV)
				if !ok {
					e.fail("fieldaddr on %T", e.get(fr, in.X))
				}
				if p.c == nil {
					e.goPanicNow("nil pointer dereference")
				}
				sv, ok := p.c.v.(*StructV)
				if !ok {
					e.fail("fieldaddr: pointee is %T (%s)", p.c.v, in.X.Type())
				}
				fr.locals[in] = &PtrV{sv.f[in.Field]}
			case *ssa.Field:
				sv, ok := e.get(fr, in.X).(*StructV)
				if !ok {
					e.fail("field on %T", e.get(fr, in.X))
				}
				fr.locals[in] = copyVal(sv.f[in.Field].v)
			case *ssa.IndexAddr:
				fr.locals[in] = e.indexAddr(fr, in)
			case *ssa.Index:
				fr.locals[in] = e.index(fr, in)
			case *ssa.Slice:
				fr.locals[in] = e.slice(fr, in)
			case *ssa.MakeSlice:
				fr.locals[in] = e.makeSlice(fr, in)
			case *ssa.BinOp:
				fr.locals[in] = e.binop(in.Op, in.X.Type(), e.get(fr, in.X), e.get(fr, in.Y))
			case *ssa.Convert:
				fr.locals[in] = e.convert(in.X.Type(), in.Type(), e.get(fr, in.X))
			case *ssa.ChangeType:
				fr.locals[in] = e.get(fr, in.X)
			case *ssa.MakeInterface:
				fr.locals[in] = &IfaceV{t: in.X.Type(), v: e.get(fr, in.X)}
			case *ssa.ChangeInterface:
				fr.locals[in] = e.get(fr, in.X)
			case *ssa.TypeAssert:
				fr.locals[in] = e.typeAssert(fr, in)
			case *ssa.Extract:
				tv, ok := e.get(fr, in.Tuple).(TupleV)
				if !ok {
					e.fail("extract from %T", e.get(fr, in.Tuple))
				}
				fr.locals[in] = tv[in.Index]
			case *ssa.Call:
				fr.locals[in] = e.doCall(fr, in.Common())
			case *ssa.MakeClosure:
				fv := &FuncV{fn: in.Fn.(*ssa.Function)}
				for _, b := range in.Bindings {
					fv.bindings = append(fv.bindings, e.get(fr, b))
				}
				fr.locals[in] = fv
			case *ssa.MakeMap:
				fr.locals[in] = &MapV{}
			case *ssa.MapUpdate:
				e.mapUpdate(e.get(fr, in.Map), e.get(fr, in.Key), e.get(fr, in.Value))
			case *ssa.Lookup:
				fr.locals[in] = e.lookup(fr, in)
			case *ssa.Range:
				fr.locals[in] = e.rangeStart(e.get(fr, in.X))
			case *ssa.Next:
				fr.locals[in] = e.rangeNext(in, e.get(fr, in.Iter))
			case *ssa.Defer:
				thunk := e.makeThunk(fr, in.Common())
				fr.defers = append(fr.defers, thunk)
			case *ssa.RunDefers:
				for i := len(fr.defers) - 1; i >= 0; i-- {
					fr.defers[i]()
				}
				fr.defers = nil
			case *ssa.Panic:
				e.goPanicNow("explicit panic: " + e.describe(e.get(fr, in.X)))
			case *ssa.If:
				c, ok := e.get(fr, in.Cond).(*Term)
				if !ok {
					e.fail("if on %T", e.get(fr, in.Cond))
				}
				if e.branch(c) {
					next = blk.Succs[0]
				} else {
					next = blk.Succs[1]
				}
			case *ssa.Jump:
				next = blk.Succs[0]
			case *ssa.Return:
				switch len(in.Results) {
				case 0:
					return nil
				case 1:
					return e.get(fr, in.Results[0])
				}
				var t TupleV
				for _, r := range in.Results {
					t = append(t, e.get(fr, r))
				}
				return t
			case *ssa.DebugRef:
			case *ssa.Go:
				// the goroutine runs as one atomic block at the next join point (WaitGroup.Wait), in an
				// order that is a decision of the path: the schedule is enumerated, not sampled
				e.events = append(e.events, "ambient: go statement @ "+e.where())
				e.goroutines = append(e.goroutines, e.makeThunk(fr, in.Common()))
			case *ssa.Select, *ssa.Send, *ssa.MakeChan:
				e.events = append(e.events, "ambient: channel operation @ "+e.where())
				e.fail("channel operation")
			default:
				e.fail("unsupported instruction %T in %s", ins, fn)
			}
		}
		if next == nil {
			e.fail("fell off block in %s", name)
		}
		prev, blk = blk, next
	}
}

// makeThunk captures a deferred or spawned call with its arguments evaluated now.
func (e *Exec) makeThunk(fr *Frame, cc *ssa.CallCommon) func() {
	var dargs []Value
	for _, a := range cc.Args {
		dargs = append(dargs, e.get(fr, a))
	}
	var thunk func()
	if b, ok := cc.Value.(*ssa.Builtin); ok {
		thunk = func() { e.builtin(b.Name(), cc, dargs) }
	} else if cc.IsInvoke() {
		recv := e.get(fr, cc.Value)
		thunk = func() { e.invoke(recv, cc.Method, dargs) }
	} else if fn := cc.StaticCallee(); fn != nil {
		if mc, ok := cc.Value.(*ssa.MakeClosure); ok {
			var binds []Value
			for _, b := range mc.Bindings {
				binds = append(binds, e.get(fr, b))
			}
			thunk = func() { e.run(fn, dargs, binds) }
		} else {
			thunk = func() { e.callFunc(fn, dargs) }
		}
	} else {
		fv := e.get(fr, cc.Value)
		thunk = func() { e.callValue(fv, dargs) }
	}
	return thunk
}

// joinGoroutines runs every spawned and not yet executed goroutine to completion, one after the
// other, in every order (a fork per order). Bound: goroutines are atomic blocks, interleavings
// inside their bodies are not explored.
func (e *Exec) joinGoroutines() {
	for len(e.goroutines) > 0 {
		gs := e.goroutines
		e.goroutines = nil
		for _, k := range e.choicePermOf(len(gs), "schedule", "goroutine schedule enumerated") {
			gs[k]()
		}
	}
}

// lenientInstr executes one non-control instruction of an initialiser; on failure it binds a zero
// value and reports true (handled). It reports false when the instruction should be executed by
// the normal switch (which it does itself by re-dispatching through execOne).
func (e *Exec) lenientInstr(fr *Frame, ins ssa.Instruction) (handled bool) {
	call, isCall := ins.(*ssa.Call)
	if !isCall {
		return false
	}
	depth, frame, stack := e.depth, e.frame, len(e.callStack)
	defer func() {
		if r := recover(); r != nil {
			switch r.(type) {
			case pathEnd:
				panic(r)
			default:
				// anything an initialiser call trips over (unsupported construct, Go panic, or an
				// internal engine error on code the engine was not written for) skips that call
				e.depth, e.frame = depth, frame
				e.callStack = e.callStack[:stack]
				e.initNotes = append(e.initNotes, fmt.Sprintf("initialiser call skipped in %s: %v", fr.fn, r))
				fr.locals[call] = e.zeroSafe(call.Type())
				handled = true
			}
		}
	}()
	fr.locals[call] = e.doCall(fr, call.Common())
	return true
}

func (e *Exec) zeroSafe(t types.Type) (v Value) {
	defer func() {
		if r := recover(); r != nil {
			v = nil
		}
	}()
	return e.zero(t)
}

func shortName(n string) string {
	n = strings.ReplaceAll(n, "github.com/circlefin/noble-cctp/x/cctp/", "")
	n = strings.ReplaceAll(n, "github.com/cosmos/cosmos-sdk/", "sdk/")
	return n
}

func (e *Exec) describe(v Value) string {
	switch x := v.(type) {
	case *IfaceV:
		if x.t == nil {
			return "nil"
		}
		if s, ok := x.v.(*SliceV); ok {
			if str, ok := e.concreteString(s); ok {
				return str
			}
		}
		if eo, ok := x.v.(*ErrObj); ok {
			return "error " + eo.name
		}
		return x.t.String()
	}
	return fmt.Sprintf("%T", v)
}

func (e *Exec) unop(fr *Frame, in *ssa.UnOp) Value {
	x := e.get(fr, in.X)
	switch in.Op {
	case token.MUL:
		return e.load(x)
	case token.NOT:
		return e.tb.Not(x.(*Term))
	case token.SUB:
		return e.tb.Neg(x.(*Term))
	case token.XOR:
		return e.tb.BvNot(x.(*Term))
	case token.ARROW:
		e.events = append(e.events, "ambient: channel receive @ "+e.where())
		e.fail("channel receive")
	}
	e.fail("unop %s", in.Op)
	return nil
}

func (e *Exec) typeAssert(fr *Frame, in *ssa.TypeAssert) Value {
	iv, ok := e.get(fr, in.X).(*IfaceV)
	if !ok {
		e.fail("typeassert on %T", e.get(fr, in.X))
	}
	okk := false
	if iv.t != nil {
		if it, isI := in.AssertedType.Underlying().(*types.Interface); isI {
			if _, isModel := iv.v.(*ModelObj); isModel {
				okk = true
			} else if _, isErr := iv.v.(*ErrObj); isErr {
				okk = it.NumMethods() == 1 && it.Method(0).Name() == "Error" || it.NumMethods() == 0
			} else {
				okk = types.Implements(iv.t, it)
			}
		} else {
			okk = types.Identical(iv.t, in.AssertedType)
		}
	}
	var res Value
	if okk {
		if _, isI := in.AssertedType.Underlying().(*types.Interface); isI {
			res = iv
		} else {
			res = iv.v
		}
	} else {
		if !in.CommaOk {
			e.goPanicNow("interface conversion failed: " + in.AssertedType.String())
		}
		res = e.zero(in.AssertedType)
	}
	if in.CommaOk {
		return TupleV{res, e.tb.Bool(okk)}
	}
	return res
}

// ---------- maps (association lists) ----------

func (e *Exec) keyEq(a, b Value) *Term {
	switch x := a.(type) {
	case *Term:
		return e.tb.Eq(x, b.(*Term))
	case *SliceV:
		return e.bytesEqual(x, b.(*SliceV))
	case *IfaceV:
		y := b.(*IfaceV)
		if x.t == nil || y.t == nil {
			return e.tb.Bool(x.t == nil && y.t == nil)
		}
		if !types.Identical(x.t, y.t) {
			return e.tb.ff
		}
		return e.keyEq(x.v, y.v)
	case *PtrV:
		return e.tb.Bool(x.c == b.(*PtrV).c)
	case *StructV:
		y := b.(*StructV)
		var cs []*Term
		for i := range x.f {
			cs = append(cs, e.keyEq(x.f[i].v, y.f[i].v))
		}
		return e.tb.And(cs...)
	case *ByteArrV, *ArrayV:
		if !sameShape(a, b) {
			return e.tb.ff
		}
		return e.valEq(a, b)
	}
	e.fail("keyEq on %T", a)
	return nil
}

func (e *Exec) mapUpdate(m Value, k, v Value) {
	mv, ok := m.(*MapV)
	if !ok || mv == nil {
		e.goPanicNow("assignment to entry in nil map")
	}
	for i := len(mv.entries) - 1; i >= 0; i-- {
		if e.branch(e.keyEq(mv.entries[i].k, k)) {
			mv.entries[i].v.v = copyVal(v)
			return
		}
	}
	mv.entries = append(mv.entries, mapEntry{k: k, v: &Cell{v: copyVal(v)}})
}

func (e *Exec) lookup(fr *Frame, in *ssa.Lookup) Value {
	x := e.get(fr, in.X)
	idx := e.get(fr, in.Index)
	if s, ok := x.(*SliceV); ok { // string indexing
		i := idx.(*Term)
		i64 := e.tb.Resize(i, 64, isSigned(in.Index.Type()))
		e.panicIf(e.tb.Not(e.tb.Ult(i64, s.len)), "index out of range")
		return e.byteAtSym(s, i64)
	}
	mv, _ := x.(*MapV)
	mt := in.X.Type().Underlying().(*types.Map)
	var res Value
	found := false
	if mv != nil {
		for i := len(mv.entries) - 1; i >= 0; i-- {
			if e.branch(e.keyEq(mv.entries[i].k, idx)) {
				res = copyVal(mv.entries[i].v.v)
				found = true
				break
			}
		}
	}
	if !found {
		res = e.zero(mt.Elem())
	}
	if in.CommaOk {
		return TupleV{res, e.tb.Bool(found)}
	}
	return res
}

type rangeIter struct {
	m     *MapV
	order []int
	pos   int
	s     *SliceV
}

func (e *Exec) rangeStart(x Value) Value {
	switch v := x.(type) {
	case *MapV:
		it := &rangeIter{m: v}
		n := 0
		if v != nil {
			n = len(v.entries)
		}
		// symbolic iteration order: every permutation is a separate alternative
		perm := e.choicePerm(n)
		it.order = perm
		return it
	case *SliceV:
		return &rangeIter{s: v}
	}
	e.fail("range over %T", x)
	return nil
}

func (e *Exec) choicePerm(n int) []int {
	return e.choicePermOf(n, "maporder", "map-range: iteration order enumerated")
}

func (e *Exec) choicePermOf(n int, what, note string) []int {
	rest := make([]int, n)
	for i := range rest {
		rest[i] = i
	}
	var out []int
	for len(rest) > 0 {
		k := e.choice(len(rest), what)
		out = append(out, rest[k])
		rest = append(rest[:k:k], rest[k+1:]...)
	}
	if n > 1 {
		e.events = append(e.events, note+" @ "+e.where())
	}
	return out
}

func (e *Exec) rangeNext(in *ssa.Next, itv Value) Value {
	it := itv.(*rangeIter)
	if in.IsString {
		// iterate bytes (ASCII assumption is checked: non-ASCII byte => unsupported)
		s := it.s
		n := e.concretize(s.len, e.reprCap(s), "range string length")
		if it.pos >= n {
			return TupleV{e.tb.ff, e.tb.BV(0, 64), e.tb.BV(0, 32)}
		}
		b := e.byteAt(s, it.pos)
		if e.branch(e.tb.Not(e.tb.Ult(b, e.tb.BV(0x80, 8)))) {
			e.fail("range over non-ASCII string byte")
		}
		i := it.pos
		it.pos++
		return TupleV{e.tb.tt, e.tb.BV(int64(i), 64), e.tb.ZExt(b, 32)}
	}
	if it.pos >= len(it.order) {
		mt := in.Iter.(*ssa.Range).X.Type().Underlying().(*types.Map)
		return TupleV{e.tb.ff, e.zero(mt.Key()), e.zero(mt.Elem())}
	}
	en := it.m.entries[it.order[it.pos]]
	it.pos++
	return TupleV{e.tb.tt, en.k, copyVal(en.v.v)}
}

// ---------- binop / convert ----------

func (e *Exec) binop(op token.Token, xt types.Type, x, y Value) Value {
	tb := e.tb
	neg := func(t *Term) Value {
		if op == token.NEQ {
			return tb.Not(t)
		}
		return t
	}
	switch xv := x.(type) {
	case *IfaceV:
		yv, ok := y.(*IfaceV)
		if !ok {
			e.fail("binop iface vs %T", y)
		}
		return neg(e.keyEqIface(xv, yv))
	case *PtrV:
		yp, ok := y.(*PtrV)
		if !ok {
			e.fail("binop ptr vs %T", y)
		}
		return neg(tb.Bool(xv.c == yp.c))
	case *SliceV:
		ys := y.(*SliceV)
		if !xv.isStr && !ys.isStr {
			// slice compared with nil
			if isNilSliceConst(ys, tb) {
				return neg(xv.isNil)
			}
			if isNilSliceConst(xv, tb) {
				return neg(ys.isNil)
			}
			e.fail("slice == slice")
		}
		switch op {
		case token.EQL, token.NEQ:
			return neg(e.bytesEqual(xv, ys))
		case token.ADD:
			return e.concatBytes(xv, ys, true)
		case token.LSS:
			return e.bytesLess(xv, ys)
		case token.GTR:
			return e.bytesLess(ys, xv)
		case token.LEQ:
			return tb.Not(e.bytesLess(ys, xv))
		case token.GEQ:
			return tb.Not(e.bytesLess(xv, ys))
		}
		e.fail("string binop %s", op)
	case *GSliceV:
		ys, ok := y.(*GSliceV)
		if ok && (ys.isNil && len(ys.e) == 0) {
			return neg(tb.Bool(xv.isNil))
		}
		if ok && xv.isNil && len(xv.e) == 0 {
			return neg(tb.Bool(ys.isNil))
		}
		e.fail("gslice compare")
	case *FuncV:
		yf := y.(*FuncV)
		if yf.fn == nil && yf.intrinsic == "" {
			return neg(tb.Bool(xv.fn == nil && xv.intrinsic == ""))
		}
		if xv.fn == nil && xv.intrinsic == "" {
			return neg(tb.Bool(yf.fn == nil && yf.intrinsic == ""))
		}
		e.fail("func compare")
	case *MapV:
		ym, _ := y.(*MapV)
		if ym == nil {
			return neg(tb.Bool(xv == nil))
		}
		if xv == nil {
			return neg(tb.Bool(ym == nil))
		}
		e.fail("map compare")
	case *StructV, *ByteArrV, *ArrayV:
		return neg(e.valEq(x, y))
	}
	a, ok1 := x.(*Term)
	b, ok2 := y.(*Term)
	if !ok1 || !ok2 {
		e.fail("binop %s on %T, %T", op, x, y)
	}
	sg := isSigned(xt)
	switch op {
	case token.ADD:
		return tb.Add(a, b)
	case token.SUB:
		return tb.Sub(a, b)
	case token.MUL:
		return tb.Mul(a, b)
	case token.QUO:
		e.panicIf(tb.Eq(b, tb.BV(0, b.w)), "integer divide by zero")
		if sg {
			return tb.SDiv(a, b)
		}
		return tb.UDiv(a, b)
	case token.REM:
		e.panicIf(tb.Eq(b, tb.BV(0, b.w)), "integer divide by zero")
		if sg {
			return tb.SRem(a, b)
		}
		return tb.URem(a, b)
	case token.OR:
		return tb.BvOr(a, b)
	case token.AND:
		if a.w == 0 {
			return tb.And(a, b)
		}
		return tb.BvAnd(a, b)
	case token.XOR:
		return tb.BvXor(a, b)
	case token.AND_NOT:
		return tb.BvAnd(a, tb.BvNot(b))
	case token.SHL:
		return tb.Shl(a, e.shiftAmt(b, a.w))
	case token.SHR:
		if sg {
			return tb.Ashr(a, e.shiftAmt(b, a.w))
		}
		return tb.Lshr(a, e.shiftAmt(b, a.w))
	case token.EQL:
		return tb.Eq(a, b)
	case token.NEQ:
		return tb.Not(tb.Eq(a, b))
	case token.LSS:
		if sg {
			return tb.Slt(a, b)
		}
		return tb.Ult(a, b)
	case token.LEQ:
		if sg {
			return tb.Sle(a, b)
		}
		return tb.Ule(a, b)
	case token.GTR:
		if sg {
			return tb.Slt(b, a)
		}
		return tb.Ult(b, a)
	case token.GEQ:
		if sg {
			return tb.Sle(b, a)
		}
		return tb.Ule(b, a)
	}
	e.fail("binop %s", op)
	return nil
}

func isNilSliceConst(s *SliceV, tb *TB) bool {
	return s.a == nil && s.isNil == tb.tt && s.blob == nil
}

// shiftAmt resizes a shift count to width w with saturation (Go: shifting by >= width gives 0 / sign).
func (e *Exec) shiftAmt(b *Term, w int) *Term {
	tb := e.tb
	if b.w == w {
		return b
	}
	if b.w < w {
		return tb.ZExt(b, w)
	}
	if b.isConst() {
		if b.c.IsInt64() && b.c.Int64() < int64(w) {
			return tb.BV(b.c.Int64(), w)
		}
		return tb.BV(int64(w), w)
	}
	return tb.Ite(tb.Ult(b, tb.BV(int64(w), b.w)), tb.Extract(w-1, 0, b), tb.BV(int64(w), w))
}

func (e *Exec) keyEqIface(x, y *IfaceV) *Term {
	if x.t == nil || y.t == nil {
		return e.tb.Bool(x.t == nil && y.t == nil)
	}
	if !types.Identical(x.t, y.t) {
		return e.tb.ff
	}
	switch xv := x.v.(type) {
	case *ErrObj:
		return e.tb.Bool(xv == y.v.(*ErrObj))
	case *ModelObj:
		return e.tb.Bool(x.v == y.v)
	}
	return e.valEq(x.v, y.v)
}

func (e *Exec) valEq(a, b Value) *Term {
	tb := e.tb
	if !sameShape(a, b) {
		// values of different shapes (encodings of different message types) are treated as unequal
		e.events = append(e.events, "note: comparison of differently shaped values treated as unequal")
		return tb.ff
	}
	switch x := a.(type) {
	case *Term:
		return tb.Eq(x, b.(*Term))
	case *SliceV:
		return e.bytesEqual(x, b.(*SliceV))
	case *StructV:
		y := b.(*StructV)
		var cs []*Term
		for i := range x.f {
			cs = append(cs, e.valEq(x.f[i].v, y.f[i].v))
		}
		return tb.And(cs...)
	case *ArrayV:
		y := b.(*ArrayV)
		var cs []*Term
		for i := range x.e {
			cs = append(cs, e.valEq(x.e[i].v, y.e[i].v))
		}
		return tb.And(cs...)
	case *ByteArrV:
		y := b.(*ByteArrV)
		var cs []*Term
		for i := range x.a.b {
			cs = append(cs, tb.Eq(x.a.b[i], y.a.b[i]))
		}
		return tb.And(cs...)
	case *PtrV:
		y := b.(*PtrV)
		if x.c != nil && y.c != nil {
			if bx, ok := x.c.v.(*BigV); ok {
				if by, ok := y.c.v.(*BigV); ok {
					return tb.Eq(bx.v, by.v) // math.Int payloads inside encoded messages compare by value
				}
			}
		}
		return tb.Bool(x.c == y.c)
	case *IfaceV:
		return e.keyEqIface(x, b.(*IfaceV))
	}
	e.fail("valEq on %T", a)
	return nil
}

func sameShape(a, b Value) bool {
	switch x := a.(type) {
	case *Term:
		y, ok := b.(*Term)
		return ok && x.w == y.w
	case *SliceV:
		_, ok := b.(*SliceV)
		return ok
	case *StructV:
		y, ok := b.(*StructV)
		if !ok || len(x.f) != len(y.f) {
			return false
		}
		for i := range x.f {
			if !sameShape(x.f[i].v, y.f[i].v) {
				return false
			}
		}
		return true
	case *ArrayV:
		y, ok := b.(*ArrayV)
		return ok && len(x.e) == len(y.e)
	case *ByteArrV:
		y, ok := b.(*ByteArrV)
		return ok && len(x.a.b) == len(y.a.b)
	case *PtrV:
		_, ok := b.(*PtrV)
		return ok
	case *IfaceV:
		_, ok := b.(*IfaceV)
		return ok
	}
	return false
}

func (e *Exec) convert(from, to types.Type, x Value) Value {
	tb := e.tb
	tw := width(to)
	if t, ok := x.(*Term); ok {
		if tw > 0 {
			if t.w == 0 {
				e.fail("convert bool")
			}
			return tb.Resize(t, tw, isSigned(from))
		}
		if isString(to) { // string(rune)
			if t.isConst() && t.c.IsInt64() && t.c.Int64() < 0x80 {
				return e.constBytes(string(rune(t.c.Int64())), true)
			}
			e.fail("string(rune) on symbolic/non-ASCII value")
		}
		if b, ok := to.Underlying().(*types.Basic); ok && (b.Kind() == types.Float64 || b.Kind() == types.Float32) {
			return tb.BV(0, 64)
		}
	}
	if s, ok := x.(*SliceV); ok && isByteSliceOrString(to) {
		if s.blob != nil {
			e.fail("string/[]byte conversion of an encoded protobuf blob")
		}
		if s.isStr && isString(to) || (!s.isStr && !isString(to)) {
			return s
		}
		// string <-> []byte : copy
		n := e.reprCap(s)
		a := &Alloc{}
		for i := 0; i < n; i++ {
			a.b = append(a.b, e.byteAt(s, i))
		}
		return (&SliceV{a: a, len: s.len, gocap: s.len, isStr: isString(to), isNil: tb.ff, minLen: s.minLen, tag: s.tag}).withMax(n)
	}
	if p, ok := x.(*PtrV); ok {
		if _, isPtr := to.Underlying().(*types.Pointer); isPtr {
			return p
		}
		if b, ok := to.Underlying().(*types.Basic); ok && b.Kind() == types.UnsafePointer {
			return p
		}
	}
	if g, ok := x.(*GSliceV); ok {
		if _, isSl := to.Underlying().(*types.Slice); isSl {
			return g
		}
	}
	e.fail("convert %s -> %s (%T)", from, to, x)
	return nil
}

// ---------- builtins ----------

func (e *Exec) builtin(name string, c *ssa.CallCommon, args []Value) Value {
	tb := e.tb
	switch name {
	case "len":
		switch s := args[0].(type) {
		case *SliceV:
			if !s.len.isConst() {
				e.lenBounds[s.len.id] = int64(e.reprCap(s))
			}
			return s.len
		case *GSliceV:
			return tb.BV(int64(len(s.e)), 64)
		case *MapV:
			if s == nil {
				return tb.BV(0, 64)
			}
			return tb.BV(int64(len(s.entries)), 64)
		case *ByteArrV:
			return tb.BV(int64(len(s.a.b)), 64)
		case *ArrayV:
			return tb.BV(int64(len(s.e)), 64)
		case *PtrV:
			if s.c != nil {
				switch a := s.c.v.(type) {
				case *ByteArrV:
					return tb.BV(int64(len(a.a.b)), 64)
				case *ArrayV:
					return tb.BV(int64(len(a.e)), 64)
				}
			}
		}
	case "cap":
		switch s := args[0].(type) {
		case *SliceV:
			return s.gocap
		case *GSliceV:
			if s.capUnknown {
				e.fail("cap() of a slice made with a symbolic capacity")
			}
			return tb.BV(int64(s.gocap()), 64)
		}
	case "copy":
		return e.copyBytes(args[0], args[1])
	case "append":
		return e.appendBuiltin(c, args)
	case "delete":
		mv, _ := args[0].(*MapV)
		if mv == nil {
			return nil
		}
		for i := len(mv.entries) - 1; i >= 0; i-- {
			if e.branch(e.keyEq(mv.entries[i].k, args[1])) {
				mv.entries = append(mv.entries[:i:i], mv.entries[i+1:]...)
				break
			}
		}
		return nil
	case "min", "max":
		a, b := args[0].(*Term), args[1].(*Term)
		sg := isSigned(c.Args[0].Type())
		var lt *Term
		if sg {
			lt = tb.Slt(a, b)
		} else {
			lt = tb.Ult(a, b)
		}
		if name == "min" {
			return tb.Ite(lt, a, b)
		}
		return tb.Ite(lt, b, a)
	case "print", "println":
		return nil
	case "recover":
		if n := len(e.panics); n > 0 && !e.panics[n-1].recovered {
			e.panics[n-1].recovered = true
			return &IfaceV{t: types.Typ[types.String], v: e.constBytes(e.panics[n-1].gp.what, true)}
		}
		return &IfaceV{}
	case "ssa:wrapnilchk":
		return args[0]
	}
	e.fail("builtin %s on %T", name, args[0])
	return nil
}

func (e *Exec) appendBuiltin(c *ssa.CallCommon, args []Value) Value {
	switch a := args[0].(type) {
	case *SliceV:
		b, ok := args[1].(*SliceV)
		if !ok {
			e.fail("append []byte with %T", args[1])
		}
		return e.appendBytes(a, b)
	case *GSliceV:
		b, ok := args[1].(*GSliceV)
		if !ok {
			e.fail("append slice with %T", args[1])
		}
		if len(b.e) == 0 {
			return a
		}
		if len(b.e) <= len(a.spare) && !a.capUnknown {
			// in place: the spare cells of the backing array are overwritten and stay shared with
			// every other view of it
			vals := make([]Value, len(b.e))
			for i, c := range b.e {
				vals[i] = copyVal(c.v)
			}
			for i := range b.e {
				if a.spare[i].global {
					e.noteGlobalWrite("append into the backing array of a package-level slice", a.spare[i])
				}
				a.spare[i].v = vals[i]
			}
			k := len(b.e)
			ne := append(append(make([]*Cell, 0, len(a.e)+k), a.e...), a.spare[:k]...)
			return &GSliceV{e: ne, spare: a.spare[k:len(a.spare):len(a.spare)]}
		}
		n := &GSliceV{}
		for _, c := range a.e {
			n.e = append(n.e, &Cell{v: copyVal(c.v)})
		}
		for _, c := range b.e {
			n.e = append(n.e, &Cell{v: copyVal(c.v)})
		}
		var et types.Type
		if st, ok := c.Args[0].Type().Underlying().(*types.Slice); ok {
			et = st.Elem()
		}
		if et != nil && !a.capUnknown {
			for i := growCap(a.gocap(), len(n.e), et) - len(n.e); i > 0; i-- {
				n.spare = append(n.spare, &Cell{v: e.zero(et)})
			}
		}
		return n
	}
	e.fail("append to %T", args[0])
	return nil
}

var stdSizes = types.SizesFor("gc", "amd64")

// Go 1.23 runtime size classes (runtime/sizeclasses.go)
var sizeClasses = []int64{0, 8, 16, 24, 32, 48, 64, 80, 96, 112, 128, 144, 160, 176, 192, 208, 224, 240, 256, 288, 320, 352, 384, 416, 448, 480, 512, 576, 640, 704, 768, 896, 1024, 1152, 1280, 1408, 1536, 1792, 2048, 2304, 2688, 3072, 3200, 3456, 4096, 4864, 5120, 5376, 6144, 6528, 6784, 6912, 8192, 9472, 9728, 10240, 10880, 12288, 13568, 14336, 16384, 18432, 19072, 20480, 21760, 24576, 27264, 28672, 32768}

func hasPointers(t types.Type) bool {
	switch u := t.Underlying().(type) {
	case *types.Basic:
		return u.Kind() == types.String || u.Kind() == types.UnsafePointer
	case *types.Struct:
		for i := 0; i < u.NumFields(); i++ {
			if hasPointers(u.Field(i).Type()) {
				return true
			}
		}
		return false
	case *types.Array:
		return u.Len() > 0 && hasPointers(u.Elem())
	}
	return true
}

func roundUpSize(size int64, noscan bool) int64 {
	if size <= 32768-8 {
		req := size
		if !noscan && req > 512 {
			req += 8 // malloc header
		}
		for _, c := range sizeClasses {
			if c >= req {
				return c - (req - size)
			}
		}
	}
	const page = 8192
	return (size + page - 1) / page * page
}

// growCap is runtime.growslice's capacity for appending up to newLen elements to a slice of
// capacity oldCap (Go 1.23: nextslicecap followed by rounding to the allocator's size class).
func growCap(oldCap, newLen int, et types.Type) int {
	newcap := oldCap
	doublecap := newcap + newcap
	switch {
	case newLen > doublecap:
		newcap = newLen
	case oldCap < 256:
		newcap = doublecap
	default:
		for {
			newcap += (newcap + 3*256) >> 2
			if newcap >= newLen {
				break
			}
		}
	}
	esz := stdSizes.Sizeof(et)
	if esz <= 0 {
		return newLen
	}
	mem := roundUpSize(int64(newcap)*esz, !hasPointers(et))
	return int(mem / esz)
}

// sortedFuncs lists executed functions (for evidence).
func sortedKeys(m map[string]bool) []string {
	var ks []string
	for k := range m {
		ks = append(ks, k)
	}
	sort.Strings(ks)
	return ks
}
