package main

import (
	"fmt"
	"go/types"

	"golang.org/x/tools/go/ssa"
)

// ---------- values ----------
//
//   *Term      integers (bit-vectors) and booleans
//   *SliceV    []byte and string (bounded byte vector + symbolic length)
//   *GSliceV   any other slice (concrete length)
//   *StructV   struct value (copied on load/store)
//   *ArrayV    non-byte array value
//   *ByteArrV  [N]byte array value
//   *PtrV      pointer to a Cell (nil pointer: c == nil)
//   *BytePtrV  pointer to one byte of an Alloc
//   TupleV     multiple results
//   *IfaceV    interface value (t == nil: nil interface)
//   *FuncV     function / closure / bound method
//   *MapV      map as association list
//   *ModelObj  opaque modelled object (store, context, codec, ...)
//   *BigV      math/big.Int payload (lives in a Cell, pointed to by *big.Int)
//   *ErrObj    error payload

type Value interface{}

type Cell struct {
	v      Value
	global bool // created while running package initialisers
}

type Alloc struct {
	b      []*Term
	global bool
}

type SliceV struct {
	a      *Alloc
	off    int
	len    *Term // 64-bit
	gocap  *Term // Go-level cap (64-bit)
	isStr  bool
	isNil  *Term // Bool
	minLen int   // positions [0,minLen) are certainly inside len
	maxLen int   // path-local upper bound on len (0 with known==false means: use the allocation size)
	hasMax bool
	blob   Value  // non-nil: opaque protobuf encoding of this value (a *StructV)
	tag    string // provenance tag for modelled strings (e.g. "b32enc")
}

type GSliceV struct {
	e     []*Cell
	isNil bool
	// spare holds the cells of the backing array beyond the length (cap = len(e)+len(spare)); views of
	// one backing array share the cell pointers, so an in-place append is seen through all of them
	spare []*Cell
	// capUnknown: made with a symbolic capacity; cap() on it is not answered
	capUnknown bool
}

func (g *GSliceV) gocap() int { return len(g.e) + len(g.spare) }

// full returns the cells of the backing array from the slice's start to its capacity.
func (g *GSliceV) full() []*Cell {
	if len(g.spare) == 0 {
		return g.e
	}
	return append(append(make([]*Cell, 0, g.gocap()), g.e...), g.spare...)
}

type StructV struct{ f []*Cell }
type ArrayV struct{ e []*Cell }
type ByteArrV struct{ a *Alloc }
type PtrV struct{ c *Cell }
type BytePtrV struct {
	a *Alloc
	i int
}
type TupleV []Value
type IfaceV struct {
	t types.Type
	v Value
}
type FuncV struct {
	fn        *ssa.Function
	bindings  []Value
	recv      Value  // bound method receiver (for interface method values)
	intrinsic string // engine-implemented function value
}
type mapEntry struct {
	k Value
	v *Cell
}
type MapV struct {
	entries []mapEntry
}
type BigV struct {
	v *Term // 264-bit two's complement
}
type ErrObj struct {
	name string
	wrap *ErrObj
	msg  string // description added by Wrap/Wrapf (format string), "" otherwise
}

type ModelObj struct {
	kind string
	// store / prefix store
	st     *StoreState
	prefix *SliceV
	// iterator
	items []storeItem
	pos   int
	env   *EnvState
	// generic payload
	data map[string]Value
	// created by a package initialiser (package-level, shared by every keeper instance)
	global bool
}

const bigW = 264

func isByteType(t types.Type) bool {
	b, ok := t.Underlying().(*types.Basic)
	return ok && (b.Kind() == types.Uint8 || b.Kind() == types.Byte)
}

func isByteSliceOrString(t types.Type) bool {
	switch u := t.Underlying().(type) {
	case *types.Basic:
		return u.Info()&types.IsString != 0
	case *types.Slice:
		return isByteType(u.Elem())
	}
	return false
}

func isString(t types.Type) bool {
	b, ok := t.Underlying().(*types.Basic)
	return ok && b.Info()&types.IsString != 0
}

func isByteArray(t types.Type) bool {
	a, ok := t.Underlying().(*types.Array)
	return ok && isByteType(a.Elem())
}

func width(t types.Type) int {
	switch b := t.Underlying().(type) {
	case *types.Basic:
		switch b.Kind() {
		case types.Bool, types.UntypedBool:
			return 0
		case types.Int8, types.Uint8:
			return 8
		case types.Int16, types.Uint16:
			return 16
		case types.Int32, types.Uint32, types.UntypedRune:
			return 32
		case types.Int, types.Uint, types.Int64, types.Uint64, types.Uintptr, types.UntypedInt:
			return 64
		}
	}
	return -1
}

func isSigned(t types.Type) bool {
	b, ok := t.Underlying().(*types.Basic)
	return ok && b.Info()&types.IsUnsigned == 0 && b.Info()&types.IsInteger != 0
}

func isBigInt(t types.Type) bool {
	n, ok := t.(*types.Named)
	if !ok {
		return false
	}
	o := n.Obj()
	return o.Pkg() != nil && o.Pkg().Path() == "math/big" && o.Name() == "Int"
}

func namedIs(t types.Type, pkg, name string) bool {
	if p, ok := t.(*types.Pointer); ok {
		t = p.Elem()
	}
	n, ok := t.(*types.Named)
	if !ok {
		return false
	}
	o := n.Obj()
	return o.Pkg() != nil && o.Pkg().Path() == pkg && o.Name() == name
}

func (e *Exec) zero(t types.Type) Value {
	tb := e.tb
	if w := width(t); w >= 0 {
		if w == 0 {
			return tb.ff
		}
		return tb.BV(0, w)
	}
	if isBigInt(t) {
		return &BigV{v: tb.BV(0, bigW)}
	}
	switch u := t.Underlying().(type) {
	case *types.Basic:
		if u.Info()&types.IsString != 0 {
			return e.constBytes("", true)
		}
		if u.Kind() == types.UnsafePointer {
			return &PtrV{}
		}
		if u.Kind() == types.UntypedNil {
			return &IfaceV{}
		}
		if u.Kind() == types.Float64 || u.Kind() == types.Float32 {
			return tb.BV(0, 64)
		}
	case *types.Slice:
		if isByteType(u.Elem()) {
			return &SliceV{len: tb.BV(0, 64), gocap: tb.BV(0, 64), isNil: tb.tt}
		}
		return &GSliceV{isNil: true}
	case *types.Pointer:
		return &PtrV{}
	case *types.Struct:
		s := &StructV{}
		for i := 0; i < u.NumFields(); i++ {
			s.f = append(s.f, &Cell{v: e.zero(u.Field(i).Type())})
		}
		return s
	case *types.Array:
		if isByteType(u.Elem()) {
			a := &Alloc{}
			z := tb.BV(0, 8)
			for i := int64(0); i < u.Len(); i++ {
				a.b = append(a.b, z)
			}
			return &ByteArrV{a: a}
		}
		a := &ArrayV{}
		for i := int64(0); i < u.Len(); i++ {
			a.e = append(a.e, &Cell{v: e.zero(u.Elem())})
		}
		return a
	case *types.Interface:
		return &IfaceV{}
	case *types.Signature:
		return &FuncV{}
	case *types.Map:
		return (*MapV)(nil)
	case *types.Chan:
		return nil
	case *types.Tuple:
		var tv TupleV
		for i := 0; i < u.Len(); i++ {
			tv = append(tv, e.zero(u.At(i).Type()))
		}
		return tv
	}
	panic(engineErr{"zero: unsupported type " + t.String()})
}

// copyVal implements Go value semantics for aggregates (structs and arrays are copied).
func copyVal(v Value) Value {
	switch x := v.(type) {
	case *StructV:
		s := &StructV{f: make([]*Cell, len(x.f))}
		for i, c := range x.f {
			s.f[i] = &Cell{v: copyVal(c.v)}
		}
		return s
	case *ArrayV:
		a := &ArrayV{e: make([]*Cell, len(x.e))}
		for i, c := range x.e {
			a.e[i] = &Cell{v: copyVal(c.v)}
		}
		return a
	case *ByteArrV:
		return &ByteArrV{a: &Alloc{b: append([]*Term(nil), x.a.b...)}}
	case *BigV:
		return &BigV{v: x.v}
	}
	return v
}

// deepSnapshot copies a value graph completely (cells, allocs, aggregates), preserving aliasing.
type cloner struct {
	cells  map[*Cell]*Cell
	allocs map[*Alloc]*Alloc
	maps   map[*MapV]*MapV
	global bool
}

func newCloner(global bool) *cloner {
	return &cloner{cells: map[*Cell]*Cell{}, allocs: map[*Alloc]*Alloc{}, maps: map[*MapV]*MapV{}, global: global}
}

func (cl *cloner) cell(c *Cell) *Cell {
	if c == nil {
		return nil
	}
	if n, ok := cl.cells[c]; ok {
		return n
	}
	n := &Cell{global: cl.global || c.global}
	cl.cells[c] = n
	n.v = cl.val(c.v)
	return n
}

func (cl *cloner) alloc(a *Alloc) *Alloc {
	if a == nil {
		return nil
	}
	if n, ok := cl.allocs[a]; ok {
		return n
	}
	n := &Alloc{b: append([]*Term(nil), a.b...), global: cl.global || a.global}
	cl.allocs[a] = n
	return n
}

func (cl *cloner) val(v Value) Value {
	switch x := v.(type) {
	case nil:
		return nil
	case *Term:
		return x
	case *SliceV:
		n := *x
		n.a = cl.alloc(x.a)
		if x.blob != nil {
			n.blob = cl.val(x.blob)
		}
		return &n
	case *GSliceV:
		n := &GSliceV{isNil: x.isNil, e: make([]*Cell, len(x.e)), capUnknown: x.capUnknown}
		for i, c := range x.e {
			n.e[i] = cl.cell(c)
		}
		for _, c := range x.spare {
			n.spare = append(n.spare, cl.cell(c))
		}
		return n
	case *StructV:
		n := &StructV{f: make([]*Cell, len(x.f))}
		for i, c := range x.f {
			n.f[i] = cl.cell(c)
		}
		return n
	case *ArrayV:
		n := &ArrayV{e: make([]*Cell, len(x.e))}
		for i, c := range x.e {
			n.e[i] = cl.cell(c)
		}
		return n
	case *ByteArrV:
		return &ByteArrV{a: cl.alloc(x.a)}
	case *PtrV:
		return &PtrV{c: cl.cell(x.c)}
	case *BytePtrV:
		return &BytePtrV{a: cl.alloc(x.a), i: x.i}
	case TupleV:
		n := make(TupleV, len(x))
		for i, y := range x {
			n[i] = cl.val(y)
		}
		return n
	case *IfaceV:
		return &IfaceV{t: x.t, v: cl.val(x.v)}
	case *FuncV:
		n := &FuncV{fn: x.fn, intrinsic: x.intrinsic}
		for _, b := range x.bindings {
			n.bindings = append(n.bindings, cl.val(b))
		}
		if x.recv != nil {
			n.recv = cl.val(x.recv)
		}
		return n
	case *MapV:
		if x == nil {
			return x
		}
		if n, ok := cl.maps[x]; ok {
			return n
		}
		n := &MapV{}
		cl.maps[x] = n
		for _, en := range x.entries {
			n.entries = append(n.entries, mapEntry{k: cl.val(en.k), v: cl.cell(en.v)})
		}
		return n
	case *BigV:
		return &BigV{v: x.v}
	case *ErrObj, *ModelObj, *ssa.Builtin:
		return x
	}
	panic(engineErr{fmt.Sprintf("cloner: unsupported %T", v)})
}
