package main

// Hash-consed SMT term DAG over QF_UFBV. Width 0 = Bool.

import (
	"fmt"
	"math/big"
	"strings"
)

type Term struct {
	id      int
	op      string // "const", "sym", "uf", or an SMT operator name
	w       int
	c       *big.Int // constant value (bool: 0/1)
	name    string   // sym / uf name
	args    []*Term
	p0      int // extract hi / extend amount
	p1      int // extract lo
	bodyStr string
	ub      int64 // sound unsigned upper bound (-1 unknown); only meaningful for bit-vectors
}

type UFDecl struct {
	name string
	args []int
	ret  int
}

// TB is a term builder (one per worker; not shared between goroutines).
type TB struct {
	tab   map[string]*Term
	terms []*Term
	ufs   map[string]*UFDecl
	ufseq []*UFDecl
	syms  []*Term
	tt    *Term
	ff    *Term
}

func NewTB() *TB {
	tb := &TB{tab: map[string]*Term{}, ufs: map[string]*UFDecl{}}
	tb.tt = tb.mk(&Term{op: "const", w: 0, c: big.NewInt(1), ub: -1})
	tb.ff = tb.mk(&Term{op: "const", w: 0, c: big.NewInt(0), ub: -1})
	return tb
}

func (tb *TB) key(t *Term) string {
	var sb strings.Builder
	sb.WriteString(t.op)
	sb.WriteByte('|')
	fmt.Fprintf(&sb, "%d|%d|%d|", t.w, t.p0, t.p1)
	if t.c != nil {
		sb.WriteString(t.c.Text(16))
	}
	sb.WriteByte('|')
	sb.WriteString(t.name)
	for _, a := range t.args {
		fmt.Fprintf(&sb, ",%d", a.id)
	}
	return sb.String()
}

func (tb *TB) mk(t *Term) *Term {
	k := tb.key(t)
	if x, ok := tb.tab[k]; ok {
		return x
	}
	t.id = len(tb.terms)
	tb.terms = append(tb.terms, t)
	tb.tab[k] = t
	if t.op == "sym" {
		tb.syms = append(tb.syms, t)
	}
	return t
}

func mask(w int) *big.Int {
	return new(big.Int).Sub(new(big.Int).Lsh(big.NewInt(1), uint(w)), big.NewInt(1))
}

func (t *Term) isConst() bool { return t.op == "const" }
func (t *Term) isTrue() bool  { return t.w == 0 && t.op == "const" && t.c.Sign() != 0 }
func (t *Term) isFalse() bool { return t.w == 0 && t.op == "const" && t.c.Sign() == 0 }
func (t *Term) i64() int64    { return t.c.Int64() }
func (t *Term) u64() uint64   { return t.c.Uint64() }

func (tb *TB) BV(v int64, w int) *Term { return tb.BVb(big.NewInt(v), w) }
func (tb *TB) BVu(v uint64, w int) *Term {
	return tb.BVb(new(big.Int).SetUint64(v), w)
}
func (tb *TB) BVb(v *big.Int, w int) *Term {
	if w <= 0 {
		panic("BVb width")
	}
	x := new(big.Int).And(v, mask(w))
	ub := int64(-1)
	if x.IsInt64() {
		ub = x.Int64()
	}
	return tb.mk(&Term{op: "const", w: w, c: x, ub: ub})
}
func (tb *TB) Bool(b bool) *Term {
	if b {
		return tb.tt
	}
	return tb.ff
}
func (tb *TB) Sym(name string, w int) *Term {
	return tb.mk(&Term{op: "sym", w: w, name: name, ub: -1})
}
func (tb *TB) SymUB(name string, w int, ub int64) *Term {
	t := tb.Sym(name, w)
	if t.ub < 0 || ub < t.ub {
		t.ub = ub
	}
	return t
}

func (tb *TB) UF(name string, ret int, args ...*Term) *Term {
	d, ok := tb.ufs[name]
	if !ok {
		d = &UFDecl{name: name, ret: ret}
		for _, a := range args {
			d.args = append(d.args, a.w)
		}
		tb.ufs[name] = d
		tb.ufseq = append(tb.ufseq, d)
	} else {
		if d.ret != ret || len(d.args) != len(args) {
			panic("UF signature mismatch " + name)
		}
		for i, a := range args {
			if d.args[i] != a.w {
				panic(fmt.Sprintf("UF %s arg %d width %d != %d", name, i, a.w, d.args[i]))
			}
		}
	}
	return tb.mk(&Term{op: "uf", w: ret, name: name, args: args, ub: -1})
}

func (tb *TB) app(w int, op string, args ...*Term) *Term {
	return tb.mk(&Term{op: op, w: w, args: args, ub: -1})
}

func (tb *TB) Not(a *Term) *Term {
	if a.w != 0 {
		panic("Not on bv")
	}
	if a.isConst() {
		return tb.Bool(a.isFalse())
	}
	if a.op == "not" {
		return a.args[0]
	}
	return tb.app(0, "not", a)
}

func (tb *TB) And(as ...*Term) *Term {
	var xs []*Term
	seen := map[int]bool{}
	for _, a := range as {
		if a.w != 0 {
			panic("And on bv")
		}
		if a.isFalse() {
			return tb.ff
		}
		if a.isTrue() {
			continue
		}
		if a.op == "and" {
			for _, b := range a.args {
				if !seen[b.id] {
					seen[b.id] = true
					xs = append(xs, b)
				}
			}
			continue
		}
		if !seen[a.id] {
			seen[a.id] = true
			xs = append(xs, a)
		}
	}
	if len(xs) == 0 {
		return tb.tt
	}
	if len(xs) == 1 {
		return xs[0]
	}
	return tb.app(0, "and", xs...)
}

func (tb *TB) Or(as ...*Term) *Term {
	var xs []*Term
	seen := map[int]bool{}
	for _, a := range as {
		if a.w != 0 {
			panic("Or on bv")
		}
		if a.isTrue() {
			return tb.tt
		}
		if a.isFalse() {
			continue
		}
		if a.op == "or" {
			for _, b := range a.args {
				if !seen[b.id] {
					seen[b.id] = true
					xs = append(xs, b)
				}
			}
			continue
		}
		if !seen[a.id] {
			seen[a.id] = true
			xs = append(xs, a)
		}
	}
	if len(xs) == 0 {
		return tb.ff
	}
	if len(xs) == 1 {
		return xs[0]
	}
	return tb.app(0, "or", xs...)
}

func (tb *TB) Implies(a, b *Term) *Term { return tb.Or(tb.Not(a), b) }
func (tb *TB) Iff(a, b *Term) *Term     { return tb.Eq(a, b) }

func (tb *TB) Ite(c, a, b *Term) *Term {
	if a.w != b.w {
		panic(fmt.Sprintf("Ite width %d vs %d", a.w, b.w))
	}
	if c.isTrue() {
		return a
	}
	if c.isFalse() {
		return b
	}
	if a == b {
		return a
	}
	if a.w == 0 {
		if a.isTrue() && b.isFalse() {
			return c
		}
		if a.isFalse() && b.isTrue() {
			return tb.Not(c)
		}
		if a.isTrue() {
			return tb.Or(c, b)
		}
		if a.isFalse() {
			return tb.And(tb.Not(c), b)
		}
		if b.isTrue() {
			return tb.Or(tb.Not(c), a)
		}
		if b.isFalse() {
			return tb.And(c, a)
		}
	}
	t := tb.app(a.w, "ite", c, a, b)
	if a.ub >= 0 && b.ub >= 0 && t.ub < 0 {
		t.ub = a.ub
		if b.ub > t.ub {
			t.ub = b.ub
		}
	}
	return t
}

func (tb *TB) Eq(a, b *Term) *Term {
	if a.w != b.w {
		panic(fmt.Sprintf("Eq width %d vs %d", a.w, b.w))
	}
	if a == b {
		return tb.tt
	}
	if a.isConst() && b.isConst() {
		return tb.Bool(a.c.Cmp(b.c) == 0)
	}
	if a.w == 0 {
		if a.isTrue() {
			return b
		}
		if b.isTrue() {
			return a
		}
		if a.isFalse() {
			return tb.Not(b)
		}
		if b.isFalse() {
			return tb.Not(a)
		}
	}
	// x+k1 == x+k2
	if a.w > 0 {
		ab, ak := tb.lin(a)
		bb, bk := tb.lin(b)
		if ab == bb {
			return tb.Bool(ak.Cmp(bk) == 0)
		}
		// ub-based disequality: const beyond the other's upper bound
		if a.isConst() && b.ub >= 0 && a.c.IsInt64() && a.c.Int64() > b.ub {
			return tb.ff
		}
		if b.isConst() && a.ub >= 0 && b.c.IsInt64() && b.c.Int64() > a.ub {
			return tb.ff
		}
		if a.isConst() && !a.c.IsInt64() && b.ub >= 0 {
			return tb.ff
		}
		if b.isConst() && !b.c.IsInt64() && a.ub >= 0 {
			return tb.ff
		}
	}
	if a.id > b.id {
		a, b = b, a
	}
	return tb.app(0, "=", a, b)
}

// lin decomposes t as base + k (mod 2^w); base==nil means pure constant.
func (tb *TB) lin(t *Term) (*Term, *big.Int) {
	if t.isConst() {
		return nil, t.c
	}
	if t.op == "bvadd" && len(t.args) == 2 && t.args[1].isConst() {
		return t.args[0], t.args[1].c
	}
	return t, big.NewInt(0)
}

func signedBig(c *big.Int, w int) *big.Int {
	x := new(big.Int).Set(c)
	if x.Bit(w-1) == 1 {
		x.Sub(x, new(big.Int).Lsh(big.NewInt(1), uint(w)))
	}
	return x
}

func (tb *TB) Add(a, b *Term) *Term {
	if a.w != b.w {
		panic("Add width")
	}
	ab, ak := tb.lin(a)
	bb, bk := tb.lin(b)
	k := new(big.Int).Add(ak, bk)
	k.And(k, mask(a.w))
	var base *Term
	switch {
	case ab == nil && bb == nil:
		return tb.BVb(k, a.w)
	case ab == nil:
		base = bb
	case bb == nil:
		base = ab
	default:
		x, y := ab, bb
		if x.id > y.id {
			x, y = y, x
		}
		base = tb.app(a.w, "bvadd", x, y)
	}
	if k.Sign() == 0 {
		return base
	}
	t := tb.app(a.w, "bvadd", base, tb.BVb(k, a.w))
	if t.ub < 0 && (ab == nil || bb == nil) && a.w >= 32 && base.ub >= 0 {
		sk := signedBig(k, a.w)
		if sk.IsInt64() && sk.Sign() >= 0 {
			v := base.ub + sk.Int64()
			if v >= 0 && v < 1<<31 {
				t.ub = v // sound: no wrap-around possible
			}
		}
	}
	return t
}

func (tb *TB) Neg(a *Term) *Term {
	if a.isConst() {
		return tb.BVb(new(big.Int).Neg(a.c), a.w)
	}
	return tb.app(a.w, "bvneg", a)
}

func (tb *TB) Sub(a, b *Term) *Term {
	if a.w != b.w {
		panic("Sub width")
	}
	if a == b {
		return tb.BV(0, a.w)
	}
	if b.isConst() {
		return tb.Add(a, tb.BVb(new(big.Int).Neg(b.c), a.w))
	}
	ab, ak := tb.lin(a)
	bb, bk := tb.lin(b)
	if ab != nil && ab == bb {
		return tb.BVb(new(big.Int).Sub(ak, bk), a.w)
	}
	return tb.app(a.w, "bvsub", a, b)
}

func (tb *TB) binop(op string, a, b *Term, f func(x, y *big.Int) *big.Int) *Term {
	if a.w != b.w {
		panic(op + " width")
	}
	if a.isConst() && b.isConst() {
		return tb.BVb(f(a.c, b.c), a.w)
	}
	return tb.app(a.w, op, a, b)
}

func (tb *TB) BvOr(a, b *Term) *Term {
	if a.isConst() && a.c.Sign() == 0 {
		return b
	}
	if b.isConst() && b.c.Sign() == 0 {
		return a
	}
	if a == b {
		return a
	}
	return tb.binop("bvor", a, b, func(x, y *big.Int) *big.Int { return new(big.Int).Or(x, y) })
}
func (tb *TB) BvAnd(a, b *Term) *Term {
	if a == b {
		return a
	}
	if a.isConst() && a.c.Sign() == 0 {
		return a
	}
	if b.isConst() && b.c.Sign() == 0 {
		return b
	}
	if b.isConst() && b.c.Cmp(mask(b.w)) == 0 {
		return a
	}
	if a.isConst() && a.c.Cmp(mask(a.w)) == 0 {
		return b
	}
	return tb.binop("bvand", a, b, func(x, y *big.Int) *big.Int { return new(big.Int).And(x, y) })
}
func (tb *TB) BvXor(a, b *Term) *Term {
	return tb.binop("bvxor", a, b, func(x, y *big.Int) *big.Int { return new(big.Int).Xor(x, y) })
}
func (tb *TB) BvNot(a *Term) *Term {
	if a.isConst() {
		return tb.BVb(new(big.Int).Xor(a.c, mask(a.w)), a.w)
	}
	return tb.app(a.w, "bvnot", a)
}
func (tb *TB) Mul(a, b *Term) *Term {
	if a.isConst() && a.c.Cmp(big.NewInt(1)) == 0 {
		return b
	}
	if b.isConst() && b.c.Cmp(big.NewInt(1)) == 0 {
		return a
	}
	t := tb.binop("bvmul", a, b, func(x, y *big.Int) *big.Int { return new(big.Int).Mul(x, y) })
	if !t.isConst() && t.ub < 0 {
		if a.isConst() && b.ub >= 0 && a.c.IsInt64() && a.c.Int64() < 1<<20 && b.ub < 1<<30 {
			t.ub = a.c.Int64() * b.ub
			if t.w < 62 && t.ub >= int64(1)<<uint(t.w) {
				t.ub = -1
			}
		} else if b.isConst() && a.ub >= 0 && b.c.IsInt64() && b.c.Int64() < 1<<20 && a.ub < 1<<30 {
			t.ub = b.c.Int64() * a.ub
			if t.w < 62 && t.ub >= int64(1)<<uint(t.w) {
				t.ub = -1
			}
		}
	}
	return t
}
func (tb *TB) UDiv(a, b *Term) *Term {
	if a.isConst() && b.isConst() && b.c.Sign() != 0 {
		return tb.BVb(new(big.Int).Div(a.c, b.c), a.w)
	}
	return tb.app(a.w, "bvudiv", a, b)
}
func (tb *TB) URem(a, b *Term) *Term {
	if a.isConst() && b.isConst() && b.c.Sign() != 0 {
		return tb.BVb(new(big.Int).Mod(a.c, b.c), a.w)
	}
	return tb.app(a.w, "bvurem", a, b)
}
func (tb *TB) SDiv(a, b *Term) *Term {
	if a.isConst() && b.isConst() && b.c.Sign() != 0 {
		return tb.BVb(new(big.Int).Quo(signedBig(a.c, a.w), signedBig(b.c, b.w)), a.w)
	}
	return tb.app(a.w, "bvsdiv", a, b)
}
func (tb *TB) SRem(a, b *Term) *Term {
	if a.isConst() && b.isConst() && b.c.Sign() != 0 {
		return tb.BVb(new(big.Int).Rem(signedBig(a.c, a.w), signedBig(b.c, b.w)), a.w)
	}
	return tb.app(a.w, "bvsrem", a, b)
}

func (tb *TB) Shl(a, b *Term) *Term {
	if b.isConst() {
		if b.c.Sign() == 0 {
			return a
		}
		if !b.c.IsInt64() || b.c.Int64() >= int64(a.w) {
			return tb.BV(0, a.w)
		}
		k := int(b.c.Int64())
		if a.isConst() {
			return tb.BVb(new(big.Int).Lsh(a.c, uint(k)), a.w)
		}
		// shl(x,k) = concat(extract(w-k-1,0,x), 0_k)
		return tb.Concat(tb.Extract(a.w-k-1, 0, a), tb.BV(0, k))
	}
	return tb.app(a.w, "bvshl", a, b)
}
func (tb *TB) Lshr(a, b *Term) *Term {
	if b.isConst() {
		if b.c.Sign() == 0 {
			return a
		}
		if !b.c.IsInt64() || b.c.Int64() >= int64(a.w) {
			return tb.BV(0, a.w)
		}
		k := int(b.c.Int64())
		if a.isConst() {
			return tb.BVb(new(big.Int).Rsh(a.c, uint(k)), a.w)
		}
		return tb.ZExt(tb.Extract(a.w-1, k, a), a.w)
	}
	return tb.app(a.w, "bvlshr", a, b)
}
func (tb *TB) Ashr(a, b *Term) *Term {
	if a.isConst() && b.isConst() {
		k := uint(a.w)
		if b.c.IsInt64() && b.c.Int64() < int64(a.w) {
			k = uint(b.c.Int64())
		}
		return tb.BVb(new(big.Int).Rsh(signedBig(a.c, a.w), k), a.w)
	}
	return tb.app(a.w, "bvashr", a, b)
}

func (tb *TB) cmp(op string, a, b *Term, f func(int) bool, sgn bool) *Term {
	if a.w != b.w {
		panic(fmt.Sprintf("%s width %d vs %d", op, a.w, b.w))
	}
	if a.isConst() && b.isConst() {
		if sgn {
			return tb.Bool(f(signedBig(a.c, a.w).Cmp(signedBig(b.c, b.w))))
		}
		return tb.Bool(f(a.c.Cmp(b.c)))
	}
	if a == b {
		return tb.Bool(f(0))
	}
	return tb.app(0, op, a, b)
}
func (tb *TB) Ult(a, b *Term) *Term {
	if b.isConst() && b.c.Sign() == 0 {
		return tb.ff
	}
	if !a.isConst() && a.ub >= 0 && b.isConst() && (!b.c.IsInt64() || b.c.Int64() > a.ub) {
		return tb.tt
	}
	return tb.cmp("bvult", a, b, func(c int) bool { return c < 0 }, false)
}
func (tb *TB) Ule(a, b *Term) *Term {
	if a.isConst() && a.c.Sign() == 0 {
		return tb.tt
	}
	if !a.isConst() && a.ub >= 0 && b.isConst() && (!b.c.IsInt64() || b.c.Int64() >= a.ub) {
		return tb.tt
	}
	return tb.cmp("bvule", a, b, func(c int) bool { return c <= 0 }, false)
}

// UleRaw builds a <= b without any bound-based folding (used to assert the bounds themselves).
func (tb *TB) UleRaw(a, b *Term) *Term {
	if a.isConst() && b.isConst() {
		return tb.Bool(a.c.Cmp(b.c) <= 0)
	}
	return tb.app(0, "bvule", a, b)
}

// DeclareUB records a bound that the caller asserts (with UleRaw) on every path creating t.
func (tb *TB) DeclareUB(t *Term, ub int64) {
	if !t.isConst() && (t.ub < 0 || ub < t.ub) {
		t.ub = ub
	}
}

func (tb *TB) Slt(a, b *Term) *Term {
	return tb.cmp("bvslt", a, b, func(c int) bool { return c < 0 }, true)
}
func (tb *TB) Sle(a, b *Term) *Term {
	return tb.cmp("bvsle", a, b, func(c int) bool { return c <= 0 }, true)
}

func (tb *TB) Extract(hi, lo int, a *Term) *Term {
	if hi < lo || hi >= a.w || lo < 0 {
		panic(fmt.Sprintf("Extract %d %d of width %d", hi, lo, a.w))
	}
	if lo == 0 && hi == a.w-1 {
		return a
	}
	if a.isConst() {
		return tb.BVb(new(big.Int).Rsh(a.c, uint(lo)), hi-lo+1)
	}
	switch a.op {
	case "extract":
		return tb.Extract(hi+a.p1, lo+a.p1, a.args[0])
	case "zero_extend":
		x := a.args[0]
		if hi < x.w {
			return tb.Extract(hi, lo, x)
		}
		if lo >= x.w {
			return tb.BV(0, hi-lo+1)
		}
		return tb.ZExt(tb.Extract(x.w-1, lo, x), hi-lo+1)
	case "sign_extend":
		x := a.args[0]
		if hi < x.w {
			return tb.Extract(hi, lo, x)
		}
	case "concat":
		// args[0] is most significant
		pos := a.w
		for _, p := range a.args {
			plo := pos - p.w
			if lo >= plo && hi < pos {
				return tb.Extract(hi-plo, lo-plo, p)
			}
			pos = plo
		}
		// spans several parts: rebuild from the parts it covers
		var parts []*Term
		pos = a.w
		for _, p := range a.args {
			plo := pos - p.w
			phi := pos - 1
			if phi >= lo && plo <= hi {
				h, l := phi, plo
				if h > hi {
					h = hi
				}
				if l < lo {
					l = lo
				}
				parts = append(parts, tb.Extract(h-plo, l-plo, p))
			}
			pos = plo
		}
		return tb.Concat(parts...)
	case "ite":
		if a.args[1].isConst() || a.args[2].isConst() {
			return tb.Ite(a.args[0], tb.Extract(hi, lo, a.args[1]), tb.Extract(hi, lo, a.args[2]))
		}
	case "bvor", "bvand", "bvxor":
		x, y := tb.Extract(hi, lo, a.args[0]), tb.Extract(hi, lo, a.args[1])
		switch a.op {
		case "bvor":
			return tb.BvOr(x, y)
		case "bvand":
			return tb.BvAnd(x, y)
		default:
			return tb.BvXor(x, y)
		}
	}
	t := tb.mk(&Term{op: "extract", w: hi - lo + 1, args: []*Term{a}, p0: hi, p1: lo, ub: -1})
	if lo == 0 && a.ub >= 0 && t.ub < 0 && (hi >= 62 || a.ub < (int64(1)<<uint(hi+1))) {
		t.ub = a.ub
	}
	return t
}

// Concat: args[0] most significant. Flattens, merges constants and adjacent extracts.
func (tb *TB) Concat(as ...*Term) *Term {
	var flat []*Term
	for _, a := range as {
		if a.op == "concat" {
			flat = append(flat, a.args...)
		} else {
			flat = append(flat, a)
		}
	}
	var out []*Term
	for _, a := range flat {
		if n := len(out); n > 0 {
			p := out[n-1]
			if p.isConst() && a.isConst() {
				v := new(big.Int).Lsh(p.c, uint(a.w))
				v.Or(v, a.c)
				out[n-1] = tb.BVb(v, p.w+a.w)
				continue
			}
			if p.op == "extract" && a.op == "extract" && p.args[0] == a.args[0] && p.p1 == a.p0+1 {
				out[n-1] = tb.Extract(p.p0, a.p1, p.args[0])
				continue
			}
		}
		out = append(out, a)
	}
	if len(out) == 1 {
		return out[0]
	}
	w := 0
	for _, a := range out {
		w += a.w
	}
	t := tb.mk(&Term{op: "concat", w: w, args: out, ub: -1})
	// leading zero constant gives an upper bound
	if t.ub < 0 && out[0].isConst() && out[0].c.Sign() == 0 {
		rest := w - out[0].w
		if rest < 62 {
			t.ub = int64(1)<<uint(rest) - 1
		}
	}
	return t
}

func (tb *TB) ZExt(a *Term, w int) *Term {
	if w == a.w {
		return a
	}
	if w < a.w {
		panic("ZExt narrower")
	}
	if a.isConst() {
		return tb.BVb(a.c, w)
	}
	if a.op == "zero_extend" {
		return tb.ZExt(a.args[0], w)
	}
	t := tb.mk(&Term{op: "zero_extend", w: w, args: []*Term{a}, p0: w - a.w, ub: -1})
	if t.ub < 0 {
		if a.ub >= 0 {
			t.ub = a.ub
		} else if a.w < 62 {
			t.ub = int64(1)<<uint(a.w) - 1
		}
	}
	return t
}
func (tb *TB) SExt(a *Term, w int) *Term {
	if w == a.w {
		return a
	}
	if a.isConst() {
		return tb.BVb(signedBig(a.c, a.w), w)
	}
	return tb.mk(&Term{op: "sign_extend", w: w, args: []*Term{a}, p0: w - a.w, ub: -1})
}

// Resize converts a to width w (truncate or extend, signed per flag).
func (tb *TB) Resize(a *Term, w int, signed bool) *Term {
	if w == a.w {
		return a
	}
	if w < a.w {
		return tb.Extract(w-1, 0, a)
	}
	if signed {
		return tb.SExt(a, w)
	}
	return tb.ZExt(a, w)
}

// ---- SMT-LIB rendering ----

func sortOf(w int) string {
	if w == 0 {
		return "Bool"
	}
	return fmt.Sprintf("(_ BitVec %d)", w)
}

func constLit(t *Term) string {
	if t.w == 0 {
		if t.c.Sign() != 0 {
			return "true"
		}
		return "false"
	}
	if t.w%4 == 0 {
		return fmt.Sprintf("#x%0*s", t.w/4, t.c.Text(16))
	}
	return fmt.Sprintf("#b%0*s", t.w, t.c.Text(2))
}

// ref is how a term is referred to inside another term's definition.
func (t *Term) ref() string {
	switch t.op {
	case "const":
		return constLit(t)
	case "sym":
		return t.name
	}
	return fmt.Sprintf("t%d", t.id)
}

func (t *Term) body() string {
	if t.bodyStr == "" {
		t.bodyStr = t.body0()
	}
	return t.bodyStr
}

func (t *Term) body0() string {
	var sb strings.Builder
	switch t.op {
	case "extract":
		fmt.Fprintf(&sb, "((_ extract %d %d) %s)", t.p0, t.p1, t.args[0].ref())
	case "zero_extend", "sign_extend":
		fmt.Fprintf(&sb, "((_ %s %d) %s)", t.op, t.p0, t.args[0].ref())
	case "uf":
		if len(t.args) == 0 {
			return t.name
		}
		sb.WriteString("(" + t.name)
		for _, a := range t.args {
			sb.WriteString(" " + a.ref())
		}
		sb.WriteString(")")
	default:
		sb.WriteString("(" + t.op)
		for _, a := range t.args {
			sb.WriteString(" " + a.ref())
		}
		sb.WriteString(")")
	}
	return sb.String()
}

// String renders the term fully inlined (debugging / small terms only).
func (t *Term) String() string {
	switch t.op {
	case "const", "sym":
		return t.ref()
	}
	var sb strings.Builder
	switch t.op {
	case "extract":
		fmt.Fprintf(&sb, "((_ extract %d %d) %s)", t.p0, t.p1, t.args[0])
	case "zero_extend", "sign_extend":
		fmt.Fprintf(&sb, "((_ %s %d) %s)", t.op, t.p0, t.args[0])
	default:
		n := t.op
		if t.op == "uf" {
			n = t.name
		}
		sb.WriteString("(" + n)
		for _, a := range t.args {
			s := a.String()
			if len(s) > 200 {
				s = s[:200] + "…"
			}
			sb.WriteString(" " + s)
		}
		sb.WriteString(")")
	}
	return sb.String()
}

// Rebuild constructs op(args') for the operator of t, going through the simplifying constructors.
func (tb *TB) Rebuild(t *Term, args []*Term) *Term {
	switch t.op {
	case "const", "sym":
		return t
	case "uf":
		return tb.UF(t.name, t.w, args...)
	case "not":
		return tb.Not(args[0])
	case "and":
		return tb.And(args...)
	case "or":
		return tb.Or(args...)
	case "ite":
		return tb.Ite(args[0], args[1], args[2])
	case "=":
		return tb.Eq(args[0], args[1])
	case "bvadd":
		return tb.Add(args[0], args[1])
	case "bvsub":
		return tb.Sub(args[0], args[1])
	case "bvneg":
		return tb.Neg(args[0])
	case "bvor":
		return tb.BvOr(args[0], args[1])
	case "bvand":
		return tb.BvAnd(args[0], args[1])
	case "bvxor":
		return tb.BvXor(args[0], args[1])
	case "bvnot":
		return tb.BvNot(args[0])
	case "bvmul":
		return tb.Mul(args[0], args[1])
	case "bvudiv":
		return tb.UDiv(args[0], args[1])
	case "bvurem":
		return tb.URem(args[0], args[1])
	case "bvsdiv":
		return tb.SDiv(args[0], args[1])
	case "bvsrem":
		return tb.SRem(args[0], args[1])
	case "bvshl":
		return tb.Shl(args[0], args[1])
	case "bvlshr":
		return tb.Lshr(args[0], args[1])
	case "bvashr":
		return tb.Ashr(args[0], args[1])
	case "bvult":
		return tb.Ult(args[0], args[1])
	case "bvule":
		return tb.Ule(args[0], args[1])
	case "bvslt":
		return tb.Slt(args[0], args[1])
	case "bvsle":
		return tb.Sle(args[0], args[1])
	case "extract":
		return tb.Extract(t.p0, t.p1, args[0])
	case "concat":
		return tb.Concat(args...)
	case "zero_extend":
		return tb.ZExt(args[0], t.w)
	case "sign_extend":
		return tb.SExt(args[0], t.w)
	}
	panic("Rebuild: unknown op " + t.op)
}
