package main

// Engine side of the verifrt primitives (symbolic semantics).

import (
	"fmt"
	"math/big"
	"strings"

	"golang.org/x/tools/go/ssa"
)

// NondetRec remembers how to turn a model into a replay value.
type NondetRec struct {
	Name  string
	Kind  string // "uint", "bytes", "int", "const"
	T     *Term  // uint value / int value
	Len   *Term
	Bytes []*Term
	IsNil *Term
	Const string
}

func (e *Exec) addNondet(r NondetRec) {
	for _, x := range e.nondetRecs {
		if x.Name == r.Name {
			return
		}
	}
	e.nondetRecs = append(e.nondetRecs, r)
}

func (e *Exec) nondetBytes(name string, cp int, orNil bool, isStr bool) *SliceV {
	tb := e.tb
	a := &Alloc{}
	for i := 0; i < cp; i++ {
		a.b = append(a.b, tb.Sym(fmt.Sprintf("%s_%d", name, i), 8))
	}
	l := tb.Sym(name+"_len", 64)
	e.addPC(tb.UleRaw(l, tb.BV(int64(cp), 64)))
	tb.DeclareUB(l, int64(cp))
	isNil := tb.ff
	if orNil {
		isNil = tb.Sym(name+"_isnil", 0)
		e.addPC(tb.Implies(isNil, tb.Eq(l, tb.BV(0, 64))))
	}
	e.addNondet(NondetRec{Name: name, Kind: "bytes", Len: l, Bytes: append([]*Term(nil), a.b...), IsNil: isNil})
	return &SliceV{a: a, len: l, gocap: l, isStr: isStr, isNil: isNil}
}

func (e *Exec) mkInt(v *Term) Value {
	return &StructV{f: []*Cell{{v: e.newBig(v)}}}
}
func (e *Exec) nilInt() Value {
	return &StructV{f: []*Cell{{v: &PtrV{}}}}
}

func (e *Exec) rtIntrinsic(name string, fn *ssa.Function, args []Value) (Value, bool) {
	tb := e.tb
	str := func(i int) string { return e.mustString(args[i], name) }
	if strings.HasPrefix(name, "Nondet") && len(args) > 0 {
		// names are scoped by the current prefix (PushPrefix/PopPrefix)
		base := str
		str = func(i int) string {
			if i == 0 {
				return e.namePrefix + base(0)
			}
			return base(i)
		}
	}
	switch name {
	case "PushPrefix":
		e.prefixStack = append(e.prefixStack, e.namePrefix)
		e.namePrefix += e.mustString(args[0], name)
		return nil, true
	case "PopPrefix":
		if n := len(e.prefixStack); n > 0 {
			e.namePrefix = e.prefixStack[n-1]
			e.prefixStack = e.prefixStack[:n-1]
		}
		return nil, true
	case "HonestAttester":
		i, ok := args[0].(*Term)
		if !ok || !i.isConst() {
			e.fail("HonestAttester: index must be concrete")
		}
		return e.nondetBytes(fmt.Sprintf("%shonest_att%d", e.namePrefix, i.i64()), 3, false, true), true
	case "HonestAttestationBy":
		t, ok := args[3].(*Term)
		if !ok || !t.isConst() {
			e.fail("HonestAttestationBy: t must be concrete")
		}
		n := int(t.i64())
		s := e.nondetBytes(e.namePrefix+e.mustString(args[0], name), 65*n, false, false)
		e.addPC(tb.Eq(s.len, tb.BV(int64(65*n), 64)))
		s.len, s.gocap, s.minLen = tb.BV(int64(65*n), 64), tb.BV(int64(65*n), 64), 65*n
		return s, true
	case "HonestAttestation":
		t, ok := args[2].(*Term)
		if !ok || !t.isConst() {
			e.fail("HonestAttestation: t must be concrete")
		}
		n := int(t.i64())
		s := e.nondetBytes(e.namePrefix+e.mustString(args[0], name), 65*n, false, false)
		e.addPC(tb.Eq(s.len, tb.BV(int64(65*n), 64)))
		s.len, s.gocap, s.minLen = tb.BV(int64(65*n), 64), tb.BV(int64(65*n), 64), 65*n
		return s, true
	case "Prefix":
		return e.constBytes(e.namePrefix, true), true
	case "Repeat":
		return tb.BV(1, 64), true
	case "envSame":
		a, b := e.envOf(args[0]), e.envOf(args[1])
		return e.sameObservations(a, b), true
	case "Register":
		return nil, true
	case "ExactFromHex":
		e.exactFromHex = args[0].(*Term).isTrue()
		return nil, true
	case "Tier":
		return tb.BV(int64(e.tier), 64), true
	case "NondetBool":
		n := str(0)
		t := tb.Sym(n, 8)
		e.addPC(tb.Ule(t, tb.BV(1, 8)))
		e.addNondet(NondetRec{Name: n, Kind: "uint", T: t})
		return tb.Eq(t, tb.BV(1, 8)), true
	case "NondetU8", "NondetU32", "NondetU64":
		n := str(0)
		w := map[string]int{"NondetU8": 8, "NondetU32": 32, "NondetU64": 64}[name]
		t := tb.Sym(n, w)
		e.addNondet(NondetRec{Name: n, Kind: "uint", T: t})
		return t, true
	case "NondetBytes", "NondetBytesOrNil", "NondetString":
		n := str(0)
		cp, ok := args[1].(*Term)
		if !ok || !cp.isConst() {
			e.fail("%s: capacity must be constant", name)
		}
		return e.nondetBytes(n, int(cp.i64()), name == "NondetBytesOrNil", name == "NondetString"), true
	case "NondetInt", "NondetIntNonNil":
		n := str(0)
		if name == "NondetInt" {
			if e.namedChoice(2, n+"_nil") == 1 {
				e.addNondet(NondetRec{Name: n, Kind: "const", Const: "nil"})
				return e.nilInt(), true
			}
		}
		t := tb.Sym(n, bigW)
		lim := tb.BVb(pow2(256), bigW)
		e.addPC(tb.And(tb.Slt(t, lim), tb.Slt(tb.Neg(lim), t)))
		e.addNondet(NondetRec{Name: n, Kind: "int", T: t})
		return e.mkInt(t), true
	case "NondetChoice":
		n := str(0)
		k, ok := args[1].(*Term)
		if !ok || !k.isConst() {
			e.fail("NondetChoice: n must be constant")
		}
		c := e.namedChoice(int(k.i64()), n)
		e.addNondet(NondetRec{Name: n, Kind: "const", Const: fmt.Sprint(c)})
		return tb.BV(int64(c), 64), true
	case "NondetErr":
		n := str(0)
		c := e.namedChoice(2, n)
		e.addNondet(NondetRec{Name: n, Kind: "const", Const: fmt.Sprint(c)})
		if c == 1 {
			return e.newErr("nondet:" + n), true
		}
		return e.nilErr(), true
	case "NondetAddrStr":
		// core: up to 5 printable non-space ASCII bytes, validity = uninterpreted predicate of the core;
		// optionally preceded by one space (then invalid)
		n := str(0)
		core := e.nondetBytes(n, 5, false, true)
		for i := 0; i < 5; i++ {
			b := e.byteAt(core, i)
			e.addPC(tb.Implies(tb.Ult(tb.BV(int64(i), 64), core.len), tb.And(tb.Ule(tb.BV(0x21, 8), b), tb.Ule(b, tb.BV(0x7e, 8)))))
		}
		pad := tb.Sym(n+"_pad", 8)
		e.addPC(tb.UleRaw(pad, tb.BV(1, 8)))
		e.addNondet(NondetRec{Name: n + "_pad", Kind: "uint", T: pad})
		isPad := tb.Eq(pad, tb.BV(1, 8))
		a := &Alloc{}
		for i := 0; i < 6; i++ {
			var shifted *Term
			if i == 0 {
				shifted = tb.BV(' ', 8)
			} else {
				shifted = e.byteAt(core, i-1)
			}
			a.b = append(a.b, tb.Ite(isPad, shifted, e.byteAt(core, i)))
		}
		ln := tb.Add(core.len, tb.ZExt(pad, 64))
		sv := (&SliceV{a: a, len: ln, gocap: ln, isStr: true, isNil: tb.ff}).withMax(6)
		cp, sp := e.packBytes(core, strCap), e.packBytes(sv, strCap)
		if e.abstractAddr == nil {
			e.abstractAddr = map[int]bool{}
		}
		e.abstractAddr[cp.id], e.abstractAddr[sp.id] = true, true
		okCore := tb.UF("b32ok", 0, cp)
		valid := tb.And(tb.Not(isPad), okCore)
		e.addPC(tb.Eq(tb.UF("b32ok", 0, sp), valid))
		// well-formed bech32 whose payload is not an acceptable address (realised natively by the
		// encoding of the empty payload)
		wfCore := tb.UF("b32wf", 0, cp)
		e.addPC(tb.Implies(okCore, wfCore))
		e.addPC(tb.Eq(tb.UF("b32wf", 0, sp), tb.And(tb.Not(isPad), wfCore)))
		e.addNondet(NondetRec{Name: n + "_wf", Kind: "uint", T: tb.Ite(wfCore, tb.BV(1, 8), tb.BV(0, 8))})
		e.addNondet(NondetRec{Name: n + "_valid", Kind: "uint", T: tb.Ite(okCore, tb.BV(1, 8), tb.BV(0, 8))})
		// what the string decodes to (the same uninterpreted functions AccAddressFromBech32 uses): put
		// into the witness so that the native run can build the account with exactly these bytes
		decT := e.bytesFromTerm(tb.UF("b32dec", 8*addrCap, cp), addrCap, false)
		e.addNondet(NondetRec{Name: n + "_dec", Kind: "bytes", Len: tb.UF("b32declen", 64, cp), IsNil: tb.ff, Bytes: decT.a.b})
		return TupleV{sv, valid}, true
	case "NondetAddr":
		// class 0: canonical bech32 of 20 arbitrary bytes; 1: upper-case spelling; 2: a short junk
		// string; 3: canonical spelling with one leading space. The class is a symbolic value, the
		// string is an ite-merge of the four spellings (no fork).
		n := str(0)
		cls := tb.Sym(n+"_class", 8)
		e.addPC(tb.UleRaw(cls, tb.BV(3, 8)))
		e.addNondet(NondetRec{Name: n + "_class", Kind: "uint", T: cls})
		junk := e.nondetBytes(n+"_junk", 6, false, true)
		for i := 0; i < 6; i++ {
			// protobuf strings are UTF-8: the junk spelling ranges over ASCII
			e.addPC(tb.Ult(e.byteAt(junk, i), tb.BV(0x80, 8)))
		}
		bz := e.nondetBytes(n+"_bytes", 20, false, false)
		e.addPC(tb.Eq(bz.len, tb.BV(20, 64)))
		bz.len, bz.gocap, bz.minLen = tb.BV(20, 64), tb.BV(20, 64), 20
		lo := e.b32Encode(bz)
		up := e.b32EncodeUpper(bz)
		is := func(k int64) *Term { return tb.Eq(cls, tb.BV(k, 8)) }
		L := int(lo.len.i64())
		a := &Alloc{}
		for i := 0; i < L+1; i++ {
			var pad *Term
			if i == 0 {
				pad = tb.BV(' ', 8)
			} else {
				pad = e.byteAt(lo, i-1)
			}
			a.b = append(a.b, tb.Ite(is(0), e.byteAt(lo, i), tb.Ite(is(1), e.byteAt(up, i), tb.Ite(is(2), e.byteAt(junk, i), pad))))
		}
		ln := tb.Ite(is(0), lo.len, tb.Ite(is(1), up.len, tb.Ite(is(2), junk.len, tb.BV(int64(L+1), 64))))
		s := (&SliceV{a: a, len: ln, gocap: ln, isStr: true, isNil: tb.ff}).withMax(L + 1)
		valid := tb.Ule(cls, tb.BV(1, 8))
		// a string with a leading space is not a bech32 address
		padded := &SliceV{a: a, len: tb.BV(int64(L+1), 64), gocap: tb.BV(int64(L+1), 64), isStr: true, isNil: tb.ff, minLen: L + 1}
		_ = padded
		sp := e.packBytes(s, strCap)
		e.addPC(tb.Implies(is(3), tb.Not(tb.UF("b32ok", 0, sp))))
		return &StructV{f: []*Cell{{v: s}, {v: valid}, {v: bz}}}, true

	case "Assume":
		c := args[0].(*Term)
		if c.isFalse() {
			panic(pathEnd{"assume false"})
		}
		if !c.isTrue() {
			e.addPC(c)
			if e.pos >= e.startLen {
				if !e.feasible(tb.tt) {
					panic(pathEnd{"assume infeasible"})
				}
			}
		}
		return nil, true
	case "Assert":
		e.doAssert(str(0), args[1].(*Term))
		return nil, true
	case "Cover":
		e.covers = append(e.covers, str(0))
		return nil, true
	case "ProbeBool", "ProbeU64":
		e.probes = append(e.probes, probeRec{Label: str(0), T: args[1].(*Term)})
		return nil, true
	case "ProbeBytes":
		s := e.asBytes(args[1], name)
		e.probes = append(e.probes, probeRec{Label: str(0), S: s})
		return nil, true
	case "Catch":
		return e.catch(args[0]), true
	case "All", "Any":
		gs, ok := args[0].(*GSliceV)
		if !ok {
			e.fail("%s args %T", name, args[0])
		}
		var ts []*Term
		for _, c := range gs.e {
			ts = append(ts, c.v.(*Term))
		}
		if name == "All" {
			return tb.And(ts...), true
		}
		return tb.Or(ts...), true
	case "Implies":
		return tb.Implies(args[0].(*Term), args[1].(*Term)), true
	case "ByteAt":
		sv := e.asBytes(args[0], name)
		i := args[1].(*Term)
		if !i.isConst() {
			e.fail("ByteAt: index must be concrete")
		}
		k := int(i.i64())
		if k < 0 || k >= e.reprCap(sv) {
			return tb.BV(0, 8), true
		}
		return tb.Ite(tb.Ult(tb.BV(int64(k), 64), sv.len), e.byteAt(sv, k), tb.BV(0, 8)), true
	case "ProbeAttestation":
		e.probeAttestation(args)
		return nil, true
	case "SubBytes":
		b := e.asBytes(args[0], name)
		off, n := args[1].(*Term), args[2].(*Term)
		if !off.isConst() || !n.isConst() {
			e.fail("SubBytes: offset and length must be concrete")
		}
		o, k := int(off.i64()), int(n.i64())
		a := &Alloc{}
		rc := e.reprCap(b)
		for i := 0; i < k; i++ {
			if o+i < rc {
				x := e.byteAt(b, o+i)
				if o+i >= b.minLen {
					x = tb.Ite(tb.Ult(tb.BV(int64(o+i), 64), b.len), x, tb.BV(0, 8))
				}
				a.b = append(a.b, x)
			} else {
				a.b = append(a.b, tb.BV(0, 8))
			}
		}
		l := tb.BV(int64(k), 64)
		return (&SliceV{a: a, len: l, gocap: l, isNil: tb.ff, minLen: k}).withMax(k), true
	case "Keccak":
		return e.keccak(e.asBytes(args[0], name)), true
	case "Parallel":
		// two bodies that run on two goroutines natively: executed one after the other here, with the
		// package-level memory each one reads and writes outside any lock recorded; a write by one that
		// the other reads or writes is a data race under some schedule
		type acc struct{ r, w map[interface{}]string }
		var as [2]acc
		for i := 0; i < 2; i++ {
			e.trackAcc, e.accR, e.accW = true, map[interface{}]string{}, map[interface{}]string{}
			e.callValue(args[i], nil)
			as[i] = acc{e.accR, e.accW}
			e.trackAcc = false
		}
		e.raced = false
		for i := 0; i < 2; i++ {
			for o, site := range as[i].w {
				other, hit := as[1-i].w[o]
				if !hit {
					other, hit = as[1-i].r[o]
				}
				if hit && !e.raced {
					e.raced = true
					e.events = append(e.events, "race: "+site+" || "+other)
				}
			}
		}
		return nil, true
	case "Raced":
		return tb.Bool(e.raced), true
	case "Recover":
		d, sg := e.asBytes(args[0], name), e.asBytes(args[1], name)
		var hp, sp []*Term
		for i := 0; i < 32; i++ {
			hp = append(hp, e.byteAt(d, i))
		}
		for i := 0; i < 65; i++ {
			sp = append(sp, e.byteAt(sg, i))
		}
		hh, ss := tb.Concat(hp...), tb.Concat(sp...)
		ok := tb.And(tb.Eq(d.len, tb.BV(32, 64)), tb.Eq(sg.len, tb.BV(65, 64)), tb.Ult(e.byteAt(sg, 64), tb.BV(4, 8)), tb.UF("rec_ok", 0, hh, ss))
		key := e.bytesFromTerm(tb.UF("rec_key", 65*8, hh, ss), 65, false)
		return TupleV{key, ok}, true
	case "EthAddr":
		k := e.asBytes(args[0], name)
		var xs, ys []*Term
		xs = append(xs, tb.BV(0, bigW-256))
		ys = append(ys, tb.BV(0, bigW-256))
		for i := 1; i < 33; i++ {
			xs = append(xs, e.byteAt(k, i))
		}
		for i := 33; i < 65; i++ {
			ys = append(ys, e.byteAt(k, i))
		}
		x, y := tb.Concat(xs...), tb.Concat(ys...)
		out := tb.UF("ethaddr", 160, x, y)
		e.injective("ethaddr", tb.Concat(x, y), out)
		return e.bytesFromTerm(out, 20, false), true
	case "FromHex":
		return e.fromHex(e.asBytes(args[0], name)), true
	case "BytesLess":
		return e.bytesLess(e.asBytes(args[0], name), e.asBytes(args[1], name)), true
	case "LowerEq":
		got, sv := e.asBytes(args[0], name), e.asBytes(args[1], name)
		return e.bytesEqual(got, e.toLower(sv)), true
	case "ModuleAddr":
		r, _ := e.intrinsic("github.com/cosmos/cosmos-sdk/x/auth/types.NewModuleAddress", nil, args)
		return r, true
	case "IsASCII":
		return e.allASCII(e.asBytes(args[0], name)), true
	case "Concrete":
		mx := args[1].(*Term)
		if !mx.isConst() {
			e.fail("Concrete: max must be constant")
		}
		v := e.concretize(args[0].(*Term), int(mx.i64()), "Concrete")
		return tb.BV(int64(v), 64), true
	case "envEventFailures":
		return tb.BV(int64(e.envOf(args[0]).eventErrs), 64), true
	case "Ite8", "Ite64", "IteInt":
		return tb.Ite(args[0].(*Term), args[1].(*Term), args[2].(*Term)), true
	case "IsZero":
		s := e.asBytes(args[0], name)
		n := e.reprCap(s)
		var cs []*Term
		for i := 0; i < n; i++ {
			c := tb.Eq(e.byteAt(s, i), tb.BV(0, 8))
			if i >= s.minLen {
				c = tb.Implies(tb.Ult(tb.BV(int64(i), 64), s.len), c)
			}
			cs = append(cs, c)
		}
		return tb.And(cs...), true

	// ---- environment ----
	case "envNew":
		st := &StoreState{name: fmt.Sprintf("store%d", len(e.envs))}
		e.envs = append(e.envs, &EnvState{stores: []*StoreState{st}})
		return tb.BV(int64(len(e.envs)-1), 64), true
	case "envCtx":
		env := e.envOf(args[0])
		return &IfaceV{t: modelDynType, v: &ModelObj{kind: "ctx", env: env}}, true
	case "envCdc":
		return &IfaceV{t: modelDynType, v: &ModelObj{kind: "codec"}}, true
	case "envLog":
		return &IfaceV{t: modelDynType, v: &ModelObj{kind: "logger"}}, true
	case "envStoreService":
		env := e.envOf(args[0])
		return &IfaceV{t: modelDynType, v: &ModelObj{kind: "storeservice", st: env.stores[0]}}, true
	case "envMark":
		// a recording dependency leaves a marker in the store of the context it was called with
		env := e.envOf(args[0])
		st := env.stores[0]
		if c := ctxModel(args[1]); c != nil && c.st != nil {
			st = c.st
		}
		if st.marks == nil {
			st.marks = map[string]bool{}
		}
		st.marks[e.mustString(args[2], "envMark")] = true
		return nil, true
	case "envMarked":
		env := e.envOf(args[0])
		return tb.Bool(env.stores[0].marks[e.mustString(args[1], "envMarked")]), true
	case "envBeginTx":
		env := e.envOf(args[0])
		env.stores[0].txMark = len(env.stores[0].log)
		env.eventMark = len(env.events)
		return nil, true
	case "envWrites":
		env := e.envOf(args[0])
		st := env.stores[0]
		out := &GSliceV{}
		for _, en := range st.log[st.txMark:] {
			w := &StructV{}
			w.f = append(w.f, &Cell{v: e.snapshotBytes(en.key)})
			if en.val != nil {
				w.f = append(w.f, &Cell{v: e.snapshotBytes(en.val)}, &Cell{v: tb.ff})
			} else {
				w.f = append(w.f, &Cell{v: &SliceV{len: tb.BV(0, 64), gocap: tb.BV(0, 64), isNil: tb.tt}}, &Cell{v: tb.tt})
			}
			out.e = append(out.e, &Cell{v: w})
		}
		return out, true
	case "envEvents":
		env := e.envOf(args[0])
		out := &GSliceV{}
		for _, ev := range env.events[env.eventMark:] {
			cl := newCloner(false)
			out.e = append(out.e, &Cell{v: cl.val(ev)})
		}
		return out, true
	case "envRecordReads":
		env := e.envOf(args[0])
		st := env.stores[0]
		out := &GSliceV{}
		for _, k := range st.reads {
			out.e = append(out.e, &Cell{v: k})
		}
		st.reads = nil
		st.recReads = args[1].(*Term).isTrue()
		return out, true
	case "envEventsMayFail":
		env := e.envOf(args[0])
		env.eventsMayFail = args[1].(*Term).isTrue()
		return nil, true
	case "envRawSet":
		env := e.envOf(args[0])
		e.storeSet(env.stores[0], e.asBytes(args[1], name), e.asBytes(args[2], name))
		return nil, true
	case "envRawGet":
		env := e.envOf(args[0])
		return e.storeGet(env.stores[0], e.asBytes(args[1], name)), true
	case "envAllEntries":
		env := e.envOf(args[0])
		items := e.liveItems(env.stores[0], nil)
		out := &GSliceV{}
		for _, it := range items {
			w := &StructV{f: []*Cell{{v: e.snapshotBytes(it.key)}, {v: e.snapshotBytes(it.val)}, {v: tb.ff}}}
			out.e = append(out.e, &Cell{v: w})
		}
		return out, true

	// ---- integers ----
	case "Lower":
		return e.toLower(e.asBytes(args[0], name)), true
	case "IntToBytes32":
		a, ok := e.intBig(args[0], name)
		if !ok {
			e.goPanicNow("IntToBytes32(nil)")
		}
		if e.branch(tb.Not(tb.And(tb.Not(tb.Slt(a.v, tb.BV(0, bigW))), tb.Slt(a.v, tb.BVb(pow2(256), bigW))))) {
			e.goPanicNow("IntToBytes32: value out of range")
		}
		return e.bytesFromTerm(tb.Extract(255, 0, a.v), 32, false), true
	case "IntFromBytes32":
		s := e.asBytes(args[0], name)
		n := e.concretize(s.len, e.reprCap(s), "IntFromBytes32 length")
		if n > 32 {
			e.fail("IntFromBytes32: more than 32 bytes")
		}
		parts := []*Term{tb.BV(0, bigW-8*n)}
		for i := 0; i < n; i++ {
			parts = append(parts, e.byteAt(s, i))
		}
		return e.mkInt(tb.Concat(parts...)), true
	case "IntEq":
		a, ok1 := e.intBig(args[0], name)
		b, ok2 := e.intBig(args[1], name)
		if !ok1 || !ok2 {
			return tb.ff, true
		}
		return tb.Eq(a.v, b.v), true
	case "IntIsNil":
		_, ok := e.intBig(args[0], name)
		return tb.Bool(!ok), true
	case "IntCmp":
		a, ok1 := e.intBig(args[0], name)
		b, ok2 := e.intBig(args[1], name)
		x, y := tb.BV(0, bigW), tb.BV(0, bigW)
		if ok1 {
			x = a.v
		}
		if ok2 {
			y = b.v
		}
		return tb.Ite(tb.Eq(x, y), tb.BV(0, 64), tb.Ite(tb.Slt(x, y), tb.BV(-1, 64), tb.BV(1, 64))), true
	case "IntFitsU256":
		a, ok := e.intBig(args[0], name)
		if !ok {
			return tb.ff, true
		}
		return tb.And(tb.Not(tb.Slt(a.v, tb.BV(0, bigW))), tb.Slt(a.v, tb.BVb(pow2(256), bigW))), true
	case "IntU64":
		return e.mkInt(tb.ZExt(args[0].(*Term), bigW)), true
	}
	return nil, false
}

func (e *Exec) envOf(h Value) *EnvState {
	t, ok := h.(*Term)
	if !ok || !t.isConst() {
		e.fail("env handle must be concrete")
	}
	i := int(t.i64())
	if i < 0 || i >= len(e.envs) {
		e.fail("bad env handle %d", i)
	}
	return e.envs[i]
}

// b32EncodeUpper: the all-upper-case spelling of a bech32 address (also accepted by the decoder).
func (e *Exec) b32EncodeUpper(data *SliceV) *SliceV {
	tb := e.tb
	n := e.concretize(data.len, e.reprCap(data), "bech32 data length")
	p := e.packBytes(data, addrCap)
	out := tb.UF("b32encU", 8*b32EncLen, p)
	L := 6 + 1 + (8*n+4)/5 + 6
	s := e.bytesFromTerm(out, b32EncLen, true)
	l := tb.BV(int64(L), 64)
	s.len, s.gocap, s.minLen = l, l, L
	sp := e.packBytes(s, strCap)
	e.addPC(tb.UF("b32ok", 0, sp))
	e.addPC(tb.Eq(tb.UF("b32declen", 64, sp), tb.BV(int64(n), 64)))
	e.addPC(tb.Eq(tb.UF("b32dec", 8*addrCap, sp), tb.Extract(8*addrCap-1, 0, p)))
	// the upper-case spelling differs from the canonical one (its first character is 'C', not 'c')
	lower := tb.UF("b32enc", 8*b32EncLen, p)
	e.addPC(tb.Not(tb.Eq(out, lower)))
	return s
}

func (e *Exec) doAssert(label string, c *Term) {
	if e.pos < e.startLen {
		return // already decided on the path this one was forked from
	}
	rec := AssertRec{Label: label, Site: e.where()}
	if c.isTrue() {
		rec.Outcome = "proved"
		e.asserts = append(e.asserts, rec)
		return
	}
	want := e.witnessTerms()
	r, vals := e.sol.check(e.pc, e.tb.Not(c), want)
	switch r {
	case "unsat":
		rec.Outcome = "proved"
	case "sat":
		rec.Outcome = "violated"
		rec.Witness = e.witnessValues(want, vals)
	default:
		rec.Outcome = "unknown"
	}
	e.asserts = append(e.asserts, rec)
}

func (e *Exec) witnessTerms() []*Term {
	var ts []*Term
	for _, r := range e.nondetRecs {
		switch r.Kind {
		case "uint", "int":
			ts = append(ts, r.T)
		case "bytes":
			ts = append(ts, r.Len, r.IsNil)
			ts = append(ts, r.Bytes...)
		}
	}
	for _, p := range e.probes {
		if p.T != nil {
			ts = append(ts, p.T)
		}
	}
	return ts
}

func (e *Exec) witnessValues(ts []*Term, vals []*big.Int) map[string]string {
	m := map[string]*big.Int{}
	for i, t := range ts {
		m[fmt.Sprint(t.id)] = vals[i]
	}
	get := func(t *Term) *big.Int {
		if t.isConst() {
			return t.c
		}
		return m[fmt.Sprint(t.id)]
	}
	out := map[string]string{}
	for _, r := range e.nondetRecs {
		switch r.Kind {
		case "const":
			out[r.Name] = r.Const
		case "uint":
			out[r.Name] = get(r.T).String()
		case "int":
			out[r.Name] = signedBig(get(r.T), bigW).String()
		case "bytes":
			if get(r.IsNil).Sign() != 0 {
				out[r.Name] = "nil"
				continue
			}
			n := int(get(r.Len).Int64())
			var sb strings.Builder
			for i := 0; i < n && i < len(r.Bytes); i++ {
				fmt.Fprintf(&sb, "%02x", get(r.Bytes[i]).Int64())
			}
			out[r.Name] = sb.String()
		}
	}
	for _, p := range e.probes {
		if p.T != nil {
			v := get(p.T)
			out["probe:"+p.Label] = v.String()
		} else if p.Const != "" {
			out["probe:"+p.Label] = p.Const
		}
	}
	return out
}

// catch runs a closure and converts a Go panic inside it into a Boolean result.
func (e *Exec) catch(f Value) (res Value) {
	tb := e.tb
	depth, frame, stack := e.depth, e.frame, len(e.callStack)
	defer func() {
		if r := recover(); r != nil {
			if gp, ok := r.(goPanic); ok {
				e.depth, e.frame = depth, frame
				e.callStack = e.callStack[:stack]
				e.lastPanic = gp.what + " @ " + gp.site
				e.panicsCaught = append(e.panicsCaught, e.lastPanic)
				res = tb.tt
				return
			}
			panic(r)
		}
	}()
	e.callValue(f, nil)
	return tb.ff
}

// probeAttestation registers the attestation shape as probes (see harness/verifrt/concretise.go).
func (e *Exec) probeAttestation(args []Value) {
	tb := e.tb
	msgName, attName, pfx := e.mustString(args[0], "ProbeAttestation"), e.mustString(args[1], "ProbeAttestation"), e.mustString(args[2], "ProbeAttestation")
	msg, att := e.asBytes(args[3], "ProbeAttestation"), e.asBytes(args[4], "ProbeAttestation")
	gs, ok := args[5].(*GSliceV)
	if !ok {
		e.fail("ProbeAttestation attesters %T", args[5])
	}
	mt, ok := args[6].(*Term)
	if !ok || !mt.isConst() {
		e.fail("ProbeAttestation maxT must be constant")
	}
	maxT := int(mt.i64())
	tag := "shape@" + msgName + "/"
	konst := func(label, v string) { e.probes = append(e.probes, probeRec{Label: label, Const: v}) }
	konst(tag+"msg", msgName)
	konst(tag+"att", attName)
	konst(tag+"attesters", pfx)
	konst(tag+"n", fmt.Sprint(len(gs.e)))
	konst(tag+"maxT", fmt.Sprint(maxT))
	digest := e.keccak(msg)
	var hp []*Term
	for i := 0; i < 32; i++ {
		hp = append(hp, e.byteAt(digest, i))
	}
	hh := tb.Concat(hp...)
	var keys []*SliceV
	for j, c := range gs.e {
		k := e.fromHex(e.asBytes(c.v, "ProbeAttestation"))
		keys = append(keys, k)
		e.probes = append(e.probes, probeRec{Label: fmt.Sprintf(tag+"keylen/%d", j), T: k.len})
	}
	var prevAddr *SliceV
	rc := e.reprCap(att)
	for i := 0; i < maxT; i++ {
		var sp []*Term
		for k := 0; k < 65; k++ {
			idx := 65*i + k
			var b *Term = tb.BV(0, 8)
			if idx < rc {
				b = tb.Ite(tb.Ult(tb.BV(int64(idx), 64), att.len), e.byteAt(att, idx), tb.BV(0, 8))
			}
			sp = append(sp, b)
		}
		v := sp[64]
		is2728 := tb.Or(tb.Eq(v, tb.BV(27, 8)), tb.Eq(v, tb.BV(28, 8)))
		sp[64] = tb.Ite(is2728, tb.Sub(v, tb.BV(27, 8)), v)
		ss := tb.Concat(sp...)
		recok := tb.And(tb.Ult(sp[64], tb.BV(4, 8)), tb.UF("rec_ok", 0, hh, ss))
		key := e.bytesFromTerm(tb.UF("rec_key", 65*8, hh, ss), 65, false)
		e.probes = append(e.probes, probeRec{Label: fmt.Sprintf(tag+"recok/%d", i), T: recok})
		for j, kj := range keys {
			e.probes = append(e.probes, probeRec{Label: fmt.Sprintf(tag+"member/%d/%d", i, j), T: e.bytesEqual(kj, key)})
			// same X coordinate as attester j (a non-member with this property is the negated key)
			var xs []*Term
			for k := 1; k < 33; k++ {
				xs = append(xs, tb.Eq(e.byteAt(kj, k), e.byteAt(key, k)))
			}
			e.probes = append(e.probes, probeRec{Label: fmt.Sprintf(tag+"xeq/%d/%d", i, j), T: tb.And(tb.Eq(kj.len, tb.BV(65, 64)), tb.And(xs...))})
		}
		var xs, ys []*Term
		xs = append(xs, tb.BV(0, bigW-256))
		ys = append(ys, tb.BV(0, bigW-256))
		for k := 1; k < 33; k++ {
			xs = append(xs, e.byteAt(key, k))
		}
		for k := 33; k < 65; k++ {
			ys = append(ys, e.byteAt(key, k))
		}
		x, y := tb.Concat(xs...), tb.Concat(ys...)
		ao := tb.UF("ethaddr", 160, x, y)
		e.injective("ethaddr", tb.Concat(x, y), ao)
		addr := e.bytesFromTerm(ao, 20, false)
		if i > 0 {
			e.probes = append(e.probes, probeRec{Label: fmt.Sprintf(tag+"less/%d", i), T: e.bytesLess(prevAddr, addr)})
		}
		prevAddr = addr
	}
}

// namedChoice is a finite nondeterministic choice identified by name: asking again under the same
// name on the same path returns the same alternative.
func (e *Exec) namedChoice(n int, name string) int {
	if e.choiceMemo == nil {
		e.choiceMemo = map[string]int{}
	}
	if c, ok := e.choiceMemo[name]; ok {
		return c
	}
	c := e.choice(n, name)
	e.choiceMemo[name] = c
	return c
}

// sameObservations compares what two environments recorded since their BeginTx marks: the store
// writes (key, value / delete, in order) and the emitted typed events.
func (e *Exec) sameObservations(a, b *EnvState) *Term {
	tb := e.tb
	la, lb := a.stores[0].log[a.stores[0].txMark:], b.stores[0].log[b.stores[0].txMark:]
	if len(la) != len(lb) || len(a.events)-a.eventMark != len(b.events)-b.eventMark {
		return tb.ff
	}
	var cs []*Term
	for i := range la {
		cs = append(cs, e.bytesEqual(la[i].key, lb[i].key))
		if (la[i].val == nil) != (lb[i].val == nil) {
			return tb.ff
		}
		if la[i].val != nil {
			cs = append(cs, e.bytesEqual(la[i].val, lb[i].val))
		}
	}
	ea, eb := a.events[a.eventMark:], b.events[b.eventMark:]
	for i := range ea {
		x, y := ea[i].(*IfaceV), eb[i].(*IfaceV)
		cs = append(cs, e.keyEqIfaceDeep(x, y))
	}
	return tb.And(cs...)
}

func (e *Exec) keyEqIfaceDeep(x, y *IfaceV) *Term {
	if x.t == nil || y.t == nil {
		return e.tb.Bool(x.t == nil && y.t == nil)
	}
	px, ok1 := x.v.(*PtrV)
	py, ok2 := y.v.(*PtrV)
	if ok1 && ok2 && px.c != nil && py.c != nil {
		return e.valEq(px.c.v, py.c.v)
	}
	return e.keyEqIface(x, y)
}
