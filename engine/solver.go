package main

// Incremental SMT solver process (z3 -in / z3-new -in / cvc5 --incremental) speaking SMT-LIB2.
// Every non-leaf term is introduced once, at assertion level 0, as a named define-fun, so
// queries are small and sub-terms are shared between paths.

import (
	"bufio"
	"fmt"
	"io"
	"math/big"
	"os"
	"os/exec"
	"runtime"
	"strconv"
	"strings"
	"time"
)

var slowMs = func() int { n, _ := strconv.Atoi(os.Getenv("SYMGO_SLOW")); return n }()

type Solver struct {
	ctx string

	tb        *TB
	cmd       *exec.Cmd
	in        *bufio.Writer
	inRaw     io.WriteCloser
	out       *bufio.Reader
	defined   map[int]bool
	ufsSent   int
	queries   int
	nsat      int
	nunsat    int
	nunknown  int
	dur       time.Duration
	log       *bufio.Writer // optional transcript
	logf      *os.File
	timeoutMs int
	kind      string
}

func newSolver(tb *TB, kind string, timeoutMs int, transcript string) *Solver {
	var cmd *exec.Cmd
	switch kind {
	case "z3", "":
		kind = "z3"
		cmd = exec.Command("z3", "-in")
	case "z3-new":
		cmd = exec.Command("z3-new", "-in")
	case "cvc5":
		cmd = exec.Command("cvc5", "--incremental", "--lang=smt2", "--produce-models")
	default:
		panic("unknown solver " + kind)
	}
	in, _ := cmd.StdinPipe()
	out, _ := cmd.StdoutPipe()
	cmd.Stderr = os.Stderr
	if err := cmd.Start(); err != nil {
		panic(err)
	}
	s := &Solver{tb: tb, cmd: cmd, in: bufio.NewWriterSize(in, 1<<16), inRaw: in, out: bufio.NewReaderSize(out, 1<<16),
		defined: map[int]bool{}, timeoutMs: timeoutMs, kind: kind}
	if transcript != "" {
		f, err := os.Create(transcript)
		if err == nil {
			s.logf = f
			s.log = bufio.NewWriterSize(f, 1<<16)
		}
	}
	s.preamble()
	return s
}

func (s *Solver) preamble() {
	s.send("(set-option :produce-models true)")
	s.send("(set-logic QF_UFBV)")
	if s.timeoutMs > 0 {
		if s.kind == "cvc5" {
			s.send(fmt.Sprintf("(set-option :tlimit-per %d)", s.timeoutMs))
		} else {
			s.send(fmt.Sprintf("(set-option :timeout %d)", s.timeoutMs))
		}
	}
}

func (s *Solver) send(line string) {
	s.in.WriteString(line)
	s.in.WriteByte('\n')
	if s.log != nil {
		s.log.WriteString(line)
		s.log.WriteByte('\n')
	}
}

func (s *Solver) close() {
	s.send("(exit)")
	s.in.Flush()
	s.inRaw.Close()
	s.cmd.Wait()
	if s.log != nil {
		s.log.Flush()
		s.logf.Close()
	}
}

func (s *Solver) readLine() string {
	line, err := s.out.ReadString('\n')
	if err != nil {
		panic(engineErr{"solver died: " + err.Error()})
	}
	return strings.TrimSpace(line)
}

// cone collects the sub-DAG below roots, grouped by depth (leaves excluded), plus the symbols used.
func cone(roots []*Term) (levels [][]*Term, syms []*Term) {
	depth := map[int]int{}
	seen := map[int]bool{}
	type fr struct {
		t *Term
		i int
	}
	for _, r := range roots {
		if seen[r.id] {
			continue
		}
		st := []fr{{r, 0}}
		for len(st) > 0 {
			f := &st[len(st)-1]
			if seen[f.t.id] {
				st = st[:len(st)-1]
				continue
			}
			if f.i < len(f.t.args) {
				a := f.t.args[f.i]
				f.i++
				if !seen[a.id] {
					st = append(st, fr{a, 0})
				}
				continue
			}
			x := f.t
			seen[x.id] = true
			switch x.op {
			case "const":
			case "sym":
				syms = append(syms, x)
			default:
				d := 0
				for _, a := range x.args {
					if depth[a.id] > d {
						d = depth[a.id]
					}
				}
				d++
				depth[x.id] = d
				for len(levels) < d {
					levels = append(levels, nil)
				}
				levels[d-1] = append(levels[d-1], x)
			}
			st = st[:len(st)-1]
		}
	}
	return
}

// check decides satisfiability of the conjunction of pc and extra (one-shot: the solver is reset and
// receives only the cone of influence of this query, as one assertion with let-bound shared
// sub-terms). If want is non-empty and the answer is sat, the values of those terms are returned.
// solverSlots bounds the number of solver queries in flight across all harnesses of the process.
var solverSlots = make(chan bool, runtime.NumCPU())

func (s *Solver) check(pc []*Term, extra *Term, want []*Term) (string, []*big.Int) {
	solverSlots <- true
	defer func() { <-solverSlots }()
	t0 := time.Now()
	roots := append([]*Term{}, pc...)
	if extra != nil {
		roots = append(roots, extra)
	}
	roots = append(roots, want...)
	levels, syms := cone(roots)
	s.send("(reset)")
	s.preamble()
	for _, d := range s.tb.ufseq {
		var as []string
		for _, w := range d.args {
			as = append(as, sortOf(w))
		}
		s.send(fmt.Sprintf("(declare-fun %s (%s) %s)", d.name, strings.Join(as, " "), sortOf(d.ret)))
	}
	for _, x := range syms {
		s.send(fmt.Sprintf("(declare-const %s %s)", x.name, sortOf(x.w)))
	}
	// wanted non-symbol terms get a fresh constant equated with them
	wantRef := make([]string, len(want))
	var eqs []string
	for i, w := range want {
		switch w.op {
		case "sym":
			wantRef[i] = w.name
		case "const":
			wantRef[i] = ""
		default:
			n := fmt.Sprintf("want!%d", i)
			s.send(fmt.Sprintf("(declare-const %s %s)", n, sortOf(w.w)))
			wantRef[i] = n
			eqs = append(eqs, "(= "+n+" "+w.ref()+")")
		}
	}
	var sb strings.Builder
	sb.WriteString("(assert ")
	for _, lv := range levels {
		sb.WriteString("(let (")
		for _, x := range lv {
			sb.WriteString("(")
			sb.WriteString(x.ref())
			sb.WriteString(" ")
			sb.WriteString(x.body())
			sb.WriteString(")")
		}
		sb.WriteString(")\n")
	}
	sb.WriteString("(and true")
	for _, p := range pc {
		sb.WriteString(" ")
		sb.WriteString(p.ref())
	}
	if extra != nil {
		sb.WriteString(" ")
		sb.WriteString(extra.ref())
	}
	for _, q := range eqs {
		sb.WriteString(" ")
		sb.WriteString(q)
	}
	sb.WriteString(")")
	sb.WriteString(strings.Repeat(")", len(levels)))
	sb.WriteString(")")
	s.send(sb.String())
	s.send("(check-sat)")
	s.in.Flush()
	res := s.readLine()
	for res == "" {
		res = s.readLine()
	}
	var vals []*big.Int
	if res == "sat" && len(want) > 0 {
		vals = s.getValues(want, wantRef)
	}
	s.queries++
	s.dur += time.Since(t0)
	if slowMs > 0 && time.Since(t0) > time.Duration(slowMs)*time.Millisecond {
		ex := ""
		if extra != nil {
			ex = extra.String()
			if len(ex) > 300 {
				ex = ex[:300]
			}
		}
		fmt.Fprintf(os.Stderr, "SLOW q=%d %.2fs %s pc=%d ctx=%s extra=%s\n", s.queries, time.Since(t0).Seconds(), res, len(pc), s.ctx, ex)
	}
	switch res {
	case "sat":
		s.nsat++
	case "unsat":
		s.nunsat++
	case "unknown", "timeout":
		s.nunknown++
		res = "unknown"
	default:
		panic(engineErr{"solver said: " + res})
	}
	return res, vals
}

func (s *Solver) getValues(want []*Term, wantRef []string) []*big.Int {
	vals := make([]*big.Int, len(want))
	// constants need no query; map the remaining ones
	var idx []int
	for i, w := range want {
		if w.op == "const" {
			vals[i] = w.c
		} else {
			idx = append(idx, i)
		}
	}
	return s.getValues2(vals, idx, wantRef)
}

func (s *Solver) getValues2(vals []*big.Int, idx []int, wantRef []string) []*big.Int {
	want := idx
	const chunk = 200
	for base := 0; base < len(want); base += chunk {
		end := base + chunk
		if end > len(want) {
			end = len(want)
		}
		var sb strings.Builder
		sb.WriteString("(get-value (")
		for _, w := range want[base:end] {
			sb.WriteString(wantRef[w])
			sb.WriteByte(' ')
		}
		sb.WriteString("))")
		s.send(sb.String())
		s.in.Flush()
		depth := 0
		var resp strings.Builder
		for {
			line, err := s.out.ReadString('\n')
			if err != nil {
				panic(engineErr{"solver died in get-value"})
			}
			resp.WriteString(line)
			depth += strings.Count(line, "(") - strings.Count(line, ")")
			if depth <= 0 && strings.TrimSpace(resp.String()) != "" {
				break
			}
		}
		r := resp.String()
		if strings.Contains(r, "(error") {
			panic(engineErr{"solver get-value error: " + r})
		}
		// parse "((name val) (name val) ...)" ; val is #x.., #b.., true, false, or (_ bvN w)
		toks := tokenize(r)
		// structure: ( ( name val ) ( name val ) ... )
		i := 1
		for k := base; k < end; k++ {
			// expect "("
			if i >= len(toks) || toks[i] != "(" {
				panic(engineErr{"get-value parse: " + r})
			}
			i++
			// name: either atom or parenthesised expression
			i = skipSexp(toks, i)
			// value
			j := skipSexp(toks, i)
			vals[want[k]] = parseVal(toks[i:j])
			i = j
			if toks[i] != ")" {
				panic(engineErr{"get-value parse2: " + r})
			}
			i++
		}
	}
	return vals
}

func tokenize(s string) []string {
	var toks []string
	cur := strings.Builder{}
	flush := func() {
		if cur.Len() > 0 {
			toks = append(toks, cur.String())
			cur.Reset()
		}
	}
	for _, r := range s {
		switch r {
		case '(', ')':
			flush()
			toks = append(toks, string(r))
		case ' ', '\n', '\t', '\r':
			flush()
		default:
			cur.WriteRune(r)
		}
	}
	flush()
	return toks
}

func skipSexp(toks []string, i int) int {
	if toks[i] != "(" {
		return i + 1
	}
	d := 0
	for {
		if toks[i] == "(" {
			d++
		} else if toks[i] == ")" {
			d--
		}
		i++
		if d == 0 {
			return i
		}
	}
}

func parseVal(toks []string) *big.Int {
	if len(toks) == 1 {
		t := toks[0]
		switch {
		case t == "true":
			return big.NewInt(1)
		case t == "false":
			return big.NewInt(0)
		case strings.HasPrefix(t, "#x"):
			v, _ := new(big.Int).SetString(t[2:], 16)
			return v
		case strings.HasPrefix(t, "#b"):
			v, _ := new(big.Int).SetString(t[2:], 2)
			return v
		}
	}
	// (_ bv123 32)
	if len(toks) == 5 && toks[1] == "_" && strings.HasPrefix(toks[2], "bv") {
		v, _ := new(big.Int).SetString(toks[2][2:], 10)
		return v
	}
	panic(engineErr{"cannot parse value " + strings.Join(toks, " ")})
}
