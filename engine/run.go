package main

// Path exploration: a worklist of decision prefixes processed by a pool of workers, each with its
// own term builder and solver process.

import (
	"fmt"
	"os"
	"path/filepath"
	"runtime/debug"
	"sort"
	"strings"
	"sync"
	"time"

	"golang.org/x/tools/go/ssa"
)

type Program struct {
	prog     *ssa.Program
	pkgs     map[string]*ssa.Package // by import path
	repoMod  string
	loadSecs float64
}

type Worker struct {
	P        *Program
	tb       *TB
	sol      *Solver
	freshCtr int
	initDone map[*ssa.Package]bool
}

func (w *Worker) fresh(prefix string) string {
	w.freshCtr++
	return fmt.Sprintf("%s!%d", prefix, w.freshCtr)
}

func (w *Worker) isRepoPkg(p *ssa.Package) bool {
	return p != nil && p.Pkg != nil && strings.HasPrefix(p.Pkg.Path(), w.P.repoMod)
}

var sourceAllowed = []string{
	"encoding/binary", "cosmossdk.io/math", "github.com/cosmos/cosmos-sdk/types/query",
	"github.com/ethereum/go-ethereum/common", "strings", "bytes", "unicode", "unicode/utf8", "sort",
	"slices", "math/bits", "strconv", "errors", "math", "cmp", "internal/bytealg", "internal/stringslite", "time", "encoding/hex",
}

var sourceDenied = []string{
	"crypto", "github.com/ethereum/go-ethereum/crypto", "github.com/btcsuite", "github.com/decred", "golang.org/x/crypto",
	"reflect", "unsafe", "sync", "runtime", "os", "io", "net", "syscall", "time", "math/rand", "fmt", "log", "cosmossdk.io/log",
	"github.com/cosmos/gogoproto", "google.golang.org", "github.com/cosmos/cosmos-sdk/codec", "github.com/cosmos/cosmos-sdk/store",
	"cosmossdk.io/store", "github.com/cosmos/cosmos-db", "github.com/cosmos/iavl", "github.com/cometbft", "math/big", "encoding/json",
	"github.com/cosmos/cosmos-sdk/baseapp", "github.com/cosmos/cosmos-sdk/x", "github.com/cosmos/cosmos-sdk/types/bech32", "github.com/cosmos/btcutil",
}

var sourceAllowedFuncs = []string{
	"(github.com/cosmos/cosmos-sdk/types.Coin).", "(github.com/cosmos/cosmos-sdk/types.Coins).",
}

func (w *Worker) runFromSource(name string) bool { return false }

func (w *Worker) allowedSource(fn *ssa.Function) bool {
	p := fn.Pkg
	if p == nil && fn.Origin() != nil {
		p = fn.Origin().Pkg
	}
	if p == nil {
		return true // synthetic wrapper
	}
	if w.isRepoPkg(p) {
		return true
	}
	path := p.Pkg.Path()
	for _, a := range sourceAllowed {
		if path == a {
			return true
		}
	}
	name := fn.String()
	for _, a := range sourceAllowedFuncs {
		if strings.HasPrefix(name, a) {
			return true
		}
	}
	// anything else that has a Go body is executed from its own SSA as well, except packages whose
	// behaviour must come from an explicit model (cryptography, encoding registries, I/O, reflection,
	// concurrency): reaching those without a model is reported as inconclusive
	for _, d := range sourceDenied {
		if path == d || strings.HasPrefix(path, d+"/") {
			return false
		}
	}
	return true
}

// ensureInit runs the package initialiser of a repo package (leniently) the first time one of its
// globals is touched on a path.
func (w *Worker) ensureInit(e *Exec, pkg *ssa.Package) {
	if pkg == nil || e.initRun[pkg] {
		return
	}
	if !w.isRepoPkg(pkg) {
		// third-party packages whose code is executed from source get their package-level variables
		// initialised the same lenient way (e.g. go-ethereum/common/math's powers of two); huge or
		// modelled packages are left alone
		path := pkg.Pkg.Path()
		for _, d := range sourceDenied {
			if path == d || strings.HasPrefix(path, d+"/") {
				e.initRun[pkg] = true
				return
			}
		}
	}
	e.initRun[pkg] = true
	initFn := pkg.Func("init")
	if initFn == nil {
		return
	}
	saved, savedPkg := e.inInit, e.initPkg
	e.inInit, e.initPkg = true, pkg
	savedStack := e.callStack
	func() {
		defer func() {
			if r := recover(); r != nil {
				switch r.(type) {
				case engineErr, goPanic:
					// lenient: a failing initialiser leaves the remaining globals zero
					e.initNotes = append(e.initNotes, fmt.Sprintf("init of %s stopped early: %v", pkg.Pkg.Path(), r))
				default:
					panic(r)
				}
			}
		}()
		e.run(initFn, nil, nil)
	}()
	e.callStack = savedStack
	e.inInit, e.initPkg = saved, savedPkg
}

type PathSummary struct {
	ID        string            `json:"id"`
	Decisions string            `json:"decisions"`
	End       string            `json:"end"`
	Covers    []string          `json:"covers,omitempty"`
	Asserts   int               `json:"asserts"`
	Steps     int               `json:"ssa_steps"`
	Witness   map[string]string `json:"witness,omitempty"`
	Panics    []string          `json:"panics_caught,omitempty"`
}

type Violation struct {
	Harness string
	Label   string
	Site    string
	PathID  string
	Witness map[string]string
}

type HarnessResult struct {
	Name                 string
	Paths                int
	Ends                 map[string]int
	Proved               map[string]int
	Violated             map[string]int
	Unknown              map[string]int
	Violations           []Violation
	Covers               map[string]int
	Funcs                map[string]bool
	Events               map[string]bool
	Queries              int
	Sat, Unsat, UnknownQ int
	SolverSecs           float64
	WallSecs             float64
	Steps                int
	Err                  string // non-empty => inconclusive
	Samples              []PathSummary
	Witnesses            []PathSummary // paths with model witnesses (for translator validation)
	InitNotes            map[string]bool
	Panics               map[string]int
	MaxPaths             bool
}

type ExploreOpts struct {
	Workers       int
	Unwind        int
	MaxPaths      int
	TimeoutMs     int
	Tier          int
	WitnessEvery  int // take a path witness every n-th path (0 = never)
	Seed          int64
	SolverKind    string
	TranscriptDir string
}

func decString(ds []decision) string {
	var sb strings.Builder
	for _, d := range ds {
		if d.n == 2 {
			sb.WriteByte(byte('0' + d.c))
		} else {
			fmt.Fprintf(&sb, "[%d/%d]", d.c, d.n)
		}
	}
	return sb.String()
}

func explore(P *Program, fn *ssa.Function, opts ExploreOpts) *HarnessResult {
	t0 := time.Now()
	res := &HarnessResult{Name: fn.Name(), Ends: map[string]int{}, Proved: map[string]int{}, Violated: map[string]int{},
		Unknown: map[string]int{}, Covers: map[string]int{}, Funcs: map[string]bool{}, Events: map[string]bool{}, InitNotes: map[string]bool{}}
	var mu sync.Mutex
	work := [][]decision{{}}
	inflight := 0
	cond := sync.NewCond(&mu)
	stop := false
	nfatal := 0
	pathSeq := 0

	workerFn := func(wi int) {
		tb := NewTB()
		tr := ""
		if opts.TranscriptDir != "" {
			tr = filepath.Join(opts.TranscriptDir, fmt.Sprintf("%s.w%d.smt2", fn.Name(), wi))
		}
		sol := newSolver(tb, opts.SolverKind, opts.TimeoutMs, tr)
		w := &Worker{P: P, tb: tb, sol: sol}
		defer func() {
			mu.Lock()
			res.Queries += sol.queries
			res.Sat += sol.nsat
			res.Unsat += sol.nunsat
			res.UnknownQ += sol.nunknown
			res.SolverSecs += sol.dur.Seconds()
			mu.Unlock()
			sol.close()
		}()
		for {
			mu.Lock()
			for len(work) == 0 && inflight > 0 && !stop {
				cond.Wait()
			}
			if stop || (len(work) == 0 && inflight == 0) {
				mu.Unlock()
				cond.Broadcast()
				return
			}
			dec := work[len(work)-1]
			work = work[:len(work)-1]
			inflight++
			pathSeq++
			seq := pathSeq
			mu.Unlock()

			e := &Exec{W: w, tb: tb, sol: sol, prog: P.prog, decisions: dec, startLen: len(dec),
				globals: map[*ssa.Global]*Cell{}, funcs: map[string]bool{}, unwind: opts.Unwind, initRun: map[*ssa.Package]bool{}, tier: opts.Tier, lenBounds: map[int]int64{}}
			end := "return"
			var fatal string
			func() {
				defer func() {
					if r := recover(); r != nil {
						switch x := r.(type) {
						case pathEnd:
							end = "abandoned: " + x.reason
						case goPanic:
							end = "uncaught panic: " + x.what + " @ " + x.site
						case engineErr:
							end = "engine: " + x.msg
							fatal = x.msg
						default:
							panic(r)
						}
					}
				}()
				e.run(fn, nil, nil)
				if len(e.goroutines) > 0 {
					e.fail("a goroutine spawned by the code under test is never joined")
				}
			}()
			// optional path witness
			var wit map[string]string
			takeWitness := opts.WitnessEvery > 0 && fatal == "" && !strings.HasPrefix(end, "abandoned") && (seq%opts.WitnessEvery == 0)
			if takeWitness {
				want := e.witnessTerms()
				r, vals := sol.check(e.pc, nil, want)
				if r == "sat" {
					wit = e.witnessValues(want, vals)
				}
			}

			mu.Lock()
			inflight--
			res.Paths++
			res.Steps += e.steps
			key := end
			if i := strings.Index(key, " @ "); i > 0 && strings.HasPrefix(key, "uncaught panic") {
				key = key[:i]
			}
			res.Ends[key]++
			for f := range e.funcs {
				res.Funcs[f] = true
			}
			for _, ev := range e.events {
				res.Events[ev] = true
			}
			for _, n := range e.initNotes {
				res.InitNotes[n] = true
			}
			for _, c := range e.covers {
				res.Covers[c]++
			}
			for _, p := range e.panicsCaught {
				if res.Panics == nil {
					res.Panics = map[string]int{}
				}
				res.Panics[p]++
			}
			pid := fmt.Sprintf("p%d", seq)
			for _, a := range e.asserts {
				switch a.Outcome {
				case "proved":
					res.Proved[a.Label]++
				case "violated":
					res.Violated[a.Label]++
					if len(res.Violations) < 200 {
						res.Violations = append(res.Violations, Violation{Harness: fn.Name(), Label: a.Label, Site: a.Site, PathID: pid, Witness: a.Witness})
					}
				default:
					res.Unknown[a.Label]++
				}
			}
			if strings.HasPrefix(end, "uncaught panic") {
				// an uncaught panic in a harness is itself a finding of the implicit no-panic assertion
				res.Violated["uncaught-panic"]++
				want := e.witnessTerms()
				r, vals := sol.check(e.pc, nil, want)
				var wv map[string]string
				if r == "sat" {
					wv = e.witnessValues(want, vals)
				}
				if len(res.Violations) < 200 {
					res.Violations = append(res.Violations, Violation{Harness: fn.Name(), Label: "uncaught-panic", Site: end, PathID: pid, Witness: wv})
				}
			}
			ps := PathSummary{ID: pid, Decisions: decString(e.decisions), End: end, Covers: e.covers, Asserts: len(e.asserts), Steps: e.steps, Witness: wit, Panics: e.panicsCaught}
			if len(res.Samples) < 6 {
				s := ps
				s.Witness = nil
				res.Samples = append(res.Samples, s)
			}
			if wit != nil {
				res.Witnesses = append(res.Witnesses, ps)
			}
			if fatal != "" {
				// an unsupported construct ends this path only: the other paths are still explored, so
				// that a violation on a path the engine can follow is not hidden behind an inconclusive
				// one (the harness stays inconclusive either way); give up after 50 such paths
				if res.Err == "" {
					res.Err = fatal
				}
				nfatal++
				if nfatal > 50 {
					stop = true
				}
			}
			if opts.MaxPaths > 0 && res.Paths >= opts.MaxPaths && (len(work)+len(e.pending)) > 0 {
				res.MaxPaths = true
				if res.Err == "" {
					res.Err = fmt.Sprintf("path budget %d exhausted with work remaining", opts.MaxPaths)
				}
				stop = true
			}
			work = append(work, e.pending...)
			mu.Unlock()
			cond.Broadcast()
		}
	}
	if os.Getenv("SYMGO_PROGRESS") != "" {
		done := make(chan bool)
		defer close(done)
		go func() {
			for {
				select {
				case <-done:
					return
				case <-time.After(5 * time.Second):
					mu.Lock()
					fmt.Fprintf(os.Stderr, "[%s] paths=%d queue=%d inflight=%d ends=%v\n", fn.Name(), res.Paths, len(work), inflight, res.Ends)
					mu.Unlock()
				}
			}
		}()
	}
	var wg sync.WaitGroup
	n := opts.Workers
	if n < 1 {
		n = 1
	}
	for i := 0; i < n; i++ {
		wg.Add(1)
		go func(i int) {
			defer wg.Done()
			defer func() {
				if r := recover(); r != nil {
					mu.Lock()
					if res.Err == "" {
						res.Err = fmt.Sprintf("worker crashed: %v", r)
					}
					stop = true
					mu.Unlock()
					cond.Broadcast()
					fmt.Fprintf(os.Stderr, "worker panic in %s: %v\n%s\n", fn.Name(), r, debug.Stack())
				}
			}()
			workerFn(i)
		}(i)
	}
	wg.Wait()
	res.WallSecs = time.Since(t0).Seconds()
	sort.Slice(res.Violations, func(i, j int) bool {
		if res.Violations[i].Label != res.Violations[j].Label {
			return res.Violations[i].Label < res.Violations[j].Label
		}
		return res.Violations[i].PathID < res.Violations[j].PathID
	})
	return res
}
