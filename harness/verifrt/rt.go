// Package verifrt is the harness run-time of /verif. It is supplied to the go tool only through
// build overlays (virtual package github.com/circlefin/noble-cctp/x/cctp/verifrt); it is never
// committed to the repository.
//
// Every function marked PRIMITIVE is intercepted by the symbolic engine (its body here is the
// NATIVE semantics used when a solver assignment is replayed against the real build). All other
// functions are ordinary Go that the engine executes symbolically from their SSA form.
package verifrt

import (
	"bytes"
	"context"
	"crypto/sha256"
	"encoding/hex"
	"encoding/json"
	"fmt"
	"math/big"
	"os"
	"path/filepath"
	"strconv"
	"strings"
	"sync"

	"cosmossdk.io/core/store"
	"cosmossdk.io/log"
	"cosmossdk.io/math"
	sdkstore "cosmossdk.io/store"
	"cosmossdk.io/store/metrics"
	storetypes "cosmossdk.io/store/types"
	fiattokenfactorytypes "github.com/circlefin/noble-fiattokenfactory/x/fiattokenfactory/types"
	cmtproto "github.com/cometbft/cometbft/proto/tendermint/types"
	db "github.com/cosmos/cosmos-db"
	"github.com/cosmos/cosmos-sdk/codec"
	codectypes "github.com/cosmos/cosmos-sdk/codec/types"
	"github.com/cosmos/cosmos-sdk/runtime"
	sdk "github.com/cosmos/cosmos-sdk/types"
	"github.com/cosmos/cosmos-sdk/types/bech32"
	authtypes "github.com/cosmos/cosmos-sdk/x/auth/types"
	"github.com/cosmos/gogoproto/proto"
	ethcommon "github.com/ethereum/go-ethereum/common"
	ethcrypto "github.com/ethereum/go-ethereum/crypto"
)

// ---------------------------------------------------------------------------------------------
// replay state (native only)

type Replay struct {
	Harness string            `json:"harness"`
	Label   string            `json:"label"`  // assertion expected to fail ("" for a path witness)
	Values  map[string]string `json:"values"` // nondet name -> value (decimal for ints, hex for bytes, "nil")
	Probes  map[string]string `json:"probes"` // probe label -> expected value
	Note    string            `json:"note"`
	Tier    int               `json:"tier"`
	Dir     string            `json:"dir"`
}

type Outcome struct {
	FailedAsserts []string          `json:"failed_asserts"`
	PassedAsserts []string          `json:"passed_asserts"`
	AssumeFailed  bool              `json:"assume_failed"`
	Probes        map[string]string `json:"probes"`
	Covers        []string          `json:"covers"`
	Missing       []string          `json:"missing_values"`
	Panic         string            `json:"panic"`
}

var (
	cur     *Replay
	outcome *Outcome
	envs    []*nativeEnv
)

type assumeFailed struct{}

var registry = map[string]func(){}

// Register makes a harness function known to the native replay driver.
func Register(name string, f func()) { registry[name] = f }

// Lookup returns a registered harness.
func Lookup(name string) func() { return registry[name] }

// PRIMITIVE. ExactFromHex selects the byte-exact model of common.FromHex (for harnesses whose attester
// spellings are short literal strings) instead of the uninterpreted one (for harnesses that verify
// signatures, where a spelling stands for a 65-byte key). Natively a no-op.
func ExactFromHex(on bool) {}

// PRIMITIVE. Tier is 0 for the quick tier and 1 for the thorough tier (selects bounds).
func Tier() int {
	if cur == nil {
		return 0
	}
	return cur.Tier
}

// Begin loads a replay file (native only; called by the replay test driver).
func Begin(r *Replay) {
	cur = r
	namePrefix, prefixStack = "", nil
	outcome = &Outcome{Probes: map[string]string{}}
	envs = nil
	if why := concretiseAttestations(r); why != "" {
		outcome.Probes["concretiser"] = why
	}
}

func End() *Outcome { return outcome }

func LoadReplay(path string) (*Replay, error) {
	bz, err := os.ReadFile(path)
	if err != nil {
		return nil, err
	}
	r := &Replay{}
	if err := json.Unmarshal(bz, r); err != nil {
		return nil, err
	}
	return r, nil
}

// RunHarness runs f under the replay, converting Assume failures and panics into the outcome.
func RunHarness(f func()) {
	defer func() {
		if r := recover(); r != nil {
			if _, ok := r.(assumeFailed); ok {
				outcome.AssumeFailed = true
				return
			}
			outcome.Panic = fmt.Sprint(r)
		}
	}()
	f()
}

var (
	namePrefix  string
	prefixStack []string
)

// PRIMITIVE. PushPrefix scopes the names of all nondeterministic inputs created until PopPrefix.
func PushPrefix(p string) {
	prefixStack = append(prefixStack, namePrefix)
	namePrefix += p
}

// PRIMITIVE.
func PopPrefix() {
	if n := len(prefixStack); n > 0 {
		namePrefix = prefixStack[n-1]
		prefixStack = prefixStack[:n-1]
	}
}

// PRIMITIVE. Prefix is the current name prefix.
func Prefix() string { return namePrefix }

// PRIMITIVE. Repeat is how often a native replay repeats a run whose outcome may depend on run-time
// randomness such as map iteration order (symbolically 1: the engine enumerates the orders itself).
func Repeat() int { return 24 }

// SameObservations reports whether two environments recorded the same store writes and the same typed
// events since their BeginTx marks.
func SameObservations(a, b *Env) bool { return envSame(a.h, b.h) }

// PRIMITIVE
func envSame(ha, hb int) bool {
	wa, wb := envWrites(ha), envWrites(hb)
	if len(wa) != len(wb) {
		return false
	}
	for i := range wa {
		if !bytes.Equal(wa[i].Key, wb[i].Key) || !bytes.Equal(wa[i].Value, wb[i].Value) || wa[i].Delete != wb[i].Delete {
			return false
		}
	}
	ea, eb := envEvents(ha), envEvents(hb)
	if len(ea) != len(eb) {
		return false
	}
	for i := range ea {
		// compared by encoding (proto.Equal does not understand gogoproto custom types such as math.Int)
		x, err1 := proto.Marshal(ea[i])
		y, err2 := proto.Marshal(eb[i])
		if err1 != nil || err2 != nil || !bytes.Equal(x, y) || proto.MessageName(ea[i]) != proto.MessageName(eb[i]) {
			return false
		}
	}
	return true
}

func val(name string) (string, bool) {
	if cur == nil {
		panic("verifrt: no replay loaded")
	}
	name = namePrefix + name
	v, ok := cur.Values[name]
	if !ok {
		outMu.Lock()
		outcome.Missing = append(outcome.Missing, name)
		outMu.Unlock()
	}
	return v, ok
}

// outMu guards the few writes to the outcome that can happen inside the bodies of Parallel (a value
// missing from the replay, a recorded panic). It is not taken on the paths a clean run follows, so
// it adds no happens-before edge between the two bodies there.
var outMu sync.Mutex

// PRIMITIVE. Parallel runs f and g on two goroutines and waits for both. Symbolically the bodies run
// one after the other and the engine records which package-level memory each reads and writes
// outside any lock. The bodies must not create environments, push name prefixes or record
// assertions, covers or probes (the runtime's own bookkeeping is not synchronised on purpose).
func Parallel(f, g func()) {
	raceMark = raceLogSize()
	var wg sync.WaitGroup
	wg.Add(2)
	go func() { defer wg.Done(); f() }()
	go func() { defer wg.Done(); g() }()
	wg.Wait()
}

var raceMark int64

// PRIMITIVE. Raced reports whether the bodies of the last Parallel made conflicting unsynchronised
// accesses to shared memory. Natively that is the race detector's verdict: the replay binary is
// built with -race and GORACE=log_path=<p>, and a report written since Parallel started means yes;
// without the detector the answer is no.
func Raced() bool { return raceLogSize() > raceMark }

func raceLogSize() int64 {
	var total int64
	for _, kv := range strings.Fields(os.Getenv("GORACE")) {
		if p, ok := strings.CutPrefix(kv, "log_path="); ok {
			ms, _ := filepath.Glob(p + ".*")
			for _, m := range ms {
				if st, err := os.Stat(m); err == nil {
					total += st.Size()
				}
			}
		}
	}
	return total
}

func valUint(name string) uint64 {
	v, ok := val(name)
	if !ok {
		return 0
	}
	n, err := strconv.ParseUint(v, 10, 64)
	if err != nil {
		panic("verifrt: bad uint for " + name + ": " + v)
	}
	return n
}

// ---------------------------------------------------------------------------------------------
// PRIMITIVES: nondeterministic inputs

func NondetBool(name string) bool  { return valUint(name) != 0 }
func NondetU8(name string) uint8   { return uint8(valUint(name)) }
func NondetU32(name string) uint32 { return uint32(valUint(name)) }
func NondetU64(name string) uint64 { return valUint(name) }

// NondetBytes is an arbitrary non-nil byte string of length 0..cap.
func NondetBytes(name string, cap int) []byte {
	v, ok := val(name)
	if !ok {
		return []byte{}
	}
	bz, err := hex.DecodeString(v)
	if err != nil {
		panic("verifrt: bad hex for " + name)
	}
	if bz == nil {
		bz = []byte{}
	}
	return bz
}

// NondetBytesOrNil additionally ranges over the nil slice (an absent protobuf bytes field).
func NondetBytesOrNil(name string, cap int) []byte {
	v, ok := val(name)
	if !ok || v == "nil" {
		return nil
	}
	return NondetBytes(name, cap)
}

// NondetString is an arbitrary string of 0..cap bytes.
func NondetString(name string, cap int) string { return string(NondetBytes(name, cap)) }

// NondetInt is an arbitrary math.Int: absent (nil), or any integer of up to 263 bits plus sign.
func NondetInt(name string) math.Int {
	v, ok := val(name)
	if !ok || v == "nil" {
		return math.Int{}
	}
	return NondetIntNonNil(name)
}

// NondetIntNonNil is any present integer of up to 256 bits magnitude plus sign (|v| <= 2^256-1),
// the range math.Int itself can hold.
func NondetIntNonNil(name string) math.Int {
	v, ok := val(name)
	if !ok {
		return math.ZeroInt()
	}
	b, ok2 := new(big.Int).SetString(v, 10)
	if !ok2 {
		panic("verifrt: bad int for " + name)
	}
	return math.NewIntFromBigInt(b)
}

// NondetChoice returns an arbitrary value in [0,n).
func NondetChoice(name string, n int) int { return int(valUint(name)) }

type ndErr struct{ name string }

func (e ndErr) Error() string { return "nondet error " + e.name }

// NondetErr is nil or a non-nil error.
func NondetErr(name string) error {
	if valUint(name) != 0 {
		return ndErr{name}
	}
	return nil
}

// ---------------------------------------------------------------------------------------------
// PRIMITIVES: assumptions, assertions, probes

func Assume(b bool) {
	if !b {
		panic(assumeFailed{})
	}
}

func Assert(label string, b bool) {
	if b {
		outcome.PassedAsserts = append(outcome.PassedAsserts, label)
	} else {
		outcome.FailedAsserts = append(outcome.FailedAsserts, label)
	}
}

// Cover marks a program point that must be reachable (vacuity guard).
func Cover(label string) { outcome.Covers = append(outcome.Covers, label) }

func ProbeBool(label string, b bool) {
	if b {
		outcome.Probes[label] = "1"
	} else {
		outcome.Probes[label] = "0"
	}
}
func ProbeU64(label string, v uint64) { outcome.Probes[label] = strconv.FormatUint(v, 10) }
func ProbeBytes(label string, b []byte) {
	outcome.Probes[label] = hex.EncodeToString(b)
}

// Catch runs f and reports whether it panicked.
func Catch(f func()) (panicked bool) {
	defer func() {
		if r := recover(); r != nil {
			if _, ok := r.(assumeFailed); ok {
				panic(r)
			}
			panicked = true
			outMu.Lock()
			outcome.Probes["last-panic"] = fmt.Sprint(r)
			outMu.Unlock()
		}
	}()
	f()
	return false
}

// ---------------------------------------------------------------------------------------------
// Boolean combinators (no short-circuit forks)

// PRIMITIVE (All, Any, Implies, IsZero are single terms in symbolic mode).
func All(bs ...bool) bool {
	r := true
	for _, b := range bs {
		r = r && b
	}
	return r
}

func Any(bs ...bool) bool {
	r := false
	for _, b := range bs {
		r = r || b
	}
	return r
}

func Implies(a, b bool) bool { return !a || b }

// PRIMITIVE. Branch-free selection.
func Ite8(c bool, a, b byte) byte {
	if c {
		return a
	}
	return b
}

// PRIMITIVE. IsASCII reports whether every byte of s is below 0x80 (single term).
func IsASCII(s string) bool {
	for i := 0; i < len(s); i++ {
		if s[i] >= 0x80 {
			return false
		}
	}
	return true
}

// PRIMITIVE. Concrete returns v; symbolically it case-splits on the value of v (0..max) so that
// everything computed from the result is concrete on each path.
func Concrete(v int, max int) int { return v }

// PRIMITIVE.
func IteInt(c bool, a, b int) int {
	if c {
		return a
	}
	return b
}

// Tail is b[off:], or the empty slice when b is shorter (ordinary Go).
func Tail(b []byte, off int) []byte {
	if len(b) < off {
		return []byte{}
	}
	return b[off:]
}

// PRIMITIVE.
func Ite64(c bool, a, b uint64) uint64 {
	if c {
		return a
	}
	return b
}

// ---------------------------------------------------------------------------------------------
// Environment

type Write struct {
	Key    []byte
	Value  []byte
	Delete bool
}

type Env struct {
	h            int
	Ctx          context.Context
	Cdc          codec.BinaryCodec
	Log          log.Logger
	StoreService store.KVStoreService
	Bank         *Bank
	FTF          *FTF
}

// NewEnv creates an empty chain state with recording dependencies.
func NewEnv() *Env {
	e := &Env{}
	e.h = envNew()
	e.Ctx = envCtx(e.h)
	e.Cdc = envCdc(e.h)
	e.Log = envLog(e.h)
	e.StoreService = envStoreService(e.h)
	e.Bank = &Bank{h: e.h}
	e.FTF = &FTF{h: e.h}
	return e
}

// BeginTx marks the start of the transaction under test: Writes() and Events() report what
// happened after the mark.
func (e *Env) BeginTx()                { envBeginTx(e.h) }
func (e *Env) Writes() []Write         { return envWrites(e.h) }
func (e *Env) Events() []proto.Message { return envEvents(e.h) }
func (e *Env) NumEvents() int          { return len(envEvents(e.h)) }

// KeysReadBy runs f and returns the store keys it read (used to name entries observationally).
func (e *Env) KeysReadBy(f func()) [][]byte {
	envRecordReads(e.h, true)
	f()
	return envRecordReads(e.h, false)
}

// EventsMayFail makes every typed-event emission return an arbitrary error or nil (symbolic mode);
// natively events never fail, so replays of such paths are skipped.
func (e *Env) EventsMayFail(on bool) { envEventsMayFail(e.h, on) }

// EventFailures is the number of event emissions that failed since the environment was created.
func (e *Env) EventFailures() int { return envEventFailures(e.h) }

// PRIMITIVE
func envEventFailures(h int) int { return 0 }

// RawSet / RawGet give direct access to the module store (pre-state construction, store comparison).
func (e *Env) RawSet(key, value []byte) { envRawSet(e.h, key, value) }
func (e *Env) RawGet(key []byte) []byte { return envRawGet(e.h, key) }

// AllEntries lists every live entry of the module store in key order.
func (e *Env) AllEntries() []Write { return envAllEntries(e.h) }

// Marked reports whether the effect of a successful dependency call (name "bank_<n>", "burn_<n>",
// "mint_<n>") is part of the transaction's state: the recording dependencies leave a marker in the
// store of the context they are called with, so a call made on a CacheContext branch that is never
// written leaves none.
func (e *Env) Marked(name string) bool { return envMarked(e.h, name) }

var markPrefix = []byte("\xffverif/mark/")

// PRIMITIVE
func envMark(h int, ctx context.Context, name string) {
	sdk.UnwrapSDKContext(ctx).KVStore(envs[h].key).Set(append(append([]byte{}, markPrefix...), name...), []byte{1})
}

// PRIMITIVE
func envMarked(h int, name string) bool {
	return envs[h].ctx.KVStore(envs[h].key).Has(append(append([]byte{}, markPrefix...), name...))
}

type nativeEnv struct {
	key       *storetypes.KVStoreKey
	ctx       sdk.Context
	cdc       codec.BinaryCodec
	writes    []Write
	reads     [][]byte
	recReads  bool
	eventMark int
}

// PRIMITIVE
func envNew() int {
	logger := log.NewNopLogger()
	key := storetypes.NewKVStoreKey("cctp")
	ms := sdkstore.NewCommitMultiStore(db.NewMemDB(), logger, metrics.NewNoOpMetrics())
	ms.MountStoreWithDB(key, storetypes.StoreTypeIAVL, nil)
	if err := ms.LoadLatestVersion(); err != nil {
		panic(err)
	}
	ctx := sdk.NewContext(ms, cmtproto.Header{}, false, logger).WithEventManager(sdk.NewEventManager())
	ne := &nativeEnv{key: key, ctx: ctx, cdc: codec.NewProtoCodec(codectypes.NewInterfaceRegistry())}
	envs = append(envs, ne)
	return len(envs) - 1
}

// PRIMITIVE
func envCtx(h int) context.Context { return envs[h].ctx }

// PRIMITIVE
func envCdc(h int) codec.BinaryCodec { return envs[h].cdc }

// PRIMITIVE
func envLog(h int) log.Logger { return log.NewNopLogger() }

// PRIMITIVE
func envStoreService(h int) store.KVStoreService {
	return recService{inner: runtime.NewKVStoreService(envs[h].key), ne: envs[h]}
}

// PRIMITIVE
func envBeginTx(h int) {
	envs[h].writes = nil
	envs[h].eventMark = len(envs[h].ctx.EventManager().Events())
}

// PRIMITIVE
func envWrites(h int) []Write { return envs[h].writes }

// PRIMITIVE
func envRecordReads(h int, on bool) [][]byte {
	r := envs[h].reads
	envs[h].reads = nil
	envs[h].recReads = on
	return r
}

// PRIMITIVE
func envEventsMayFail(h int, on bool) {}

// PRIMITIVE
func envRawSet(h int, key, value []byte) { envs[h].ctx.KVStore(envs[h].key).Set(key, value) }

// PRIMITIVE
func envRawGet(h int, key []byte) []byte { return envs[h].ctx.KVStore(envs[h].key).Get(key) }

// PRIMITIVE
func envAllEntries(h int) []Write {
	it := envs[h].ctx.KVStore(envs[h].key).Iterator(nil, nil)
	defer it.Close()
	var out []Write
	for ; it.Valid(); it.Next() {
		if bytes.HasPrefix(it.Key(), markPrefix) {
			continue
		}
		out = append(out, Write{Key: append([]byte{}, it.Key()...), Value: append([]byte{}, it.Value()...)})
	}
	return out
}

// PRIMITIVE
func envEvents(h int) []proto.Message {
	ne := envs[h]
	var out []proto.Message
	evs := ne.ctx.EventManager().Events().ToABCIEvents()
	for _, ev := range evs[ne.eventMark:] {
		m, err := sdk.ParseTypedEvent(ev)
		if err != nil {
			panic("verifrt: cannot parse typed event " + ev.Type + ": " + err.Error())
		}
		out = append(out, m)
	}
	return out
}

type recService struct {
	inner store.KVStoreService
	ne    *nativeEnv
}

func (s recService) OpenKVStore(ctx context.Context) store.KVStore {
	return recKV{inner: s.inner.OpenKVStore(ctx), ne: s.ne}
}

type recKV struct {
	inner store.KVStore
	ne    *nativeEnv
}

func (s recKV) Get(key []byte) ([]byte, error) {
	if s.ne.recReads {
		s.ne.reads = append(s.ne.reads, append([]byte{}, key...))
	}
	return s.inner.Get(key)
}
func (s recKV) Has(key []byte) (bool, error) {
	if s.ne.recReads {
		s.ne.reads = append(s.ne.reads, append([]byte{}, key...))
	}
	return s.inner.Has(key)
}
func (s recKV) Set(key, value []byte) error {
	s.ne.writes = append(s.ne.writes, Write{Key: append([]byte{}, key...), Value: append([]byte{}, value...)})
	return s.inner.Set(key, value)
}
func (s recKV) Delete(key []byte) error {
	s.ne.writes = append(s.ne.writes, Write{Key: append([]byte{}, key...), Delete: true})
	return s.inner.Delete(key)
}
func (s recKV) Iterator(start, end []byte) (store.Iterator, error) {
	return s.inner.Iterator(start, end)
}
func (s recKV) ReverseIterator(start, end []byte) (store.Iterator, error) {
	return s.inner.ReverseIterator(start, end)
}

// ---------------------------------------------------------------------------------------------
// Recording dependencies (ordinary Go, executed symbolically as well)

type BankCall struct {
	Sender sdk.AccAddress
	Module string
	Amt    sdk.Coins
	Err    error
}

type Bank struct {
	h     int
	Calls []BankCall
	// MayPanic: a failing call may also fail by panicking (C14: every way a dependency can fail)
	MayPanic bool
}

func (b *Bank) SendCoinsFromAccountToModule(ctx context.Context, senderAddr sdk.AccAddress, recipientModule string, amt sdk.Coins) error {
	n := strconv.Itoa(len(b.Calls))
	err := NondetErr("bank_err_" + n)
	b.Calls = append(b.Calls, BankCall{Sender: senderAddr, Module: recipientModule, Amt: amt, Err: err})
	if err != nil && b.MayPanic && NondetBool("bank_panics_"+n) {
		panic("bank: transfer panicked")
	}
	if err == nil {
		envMark(b.h, ctx, "bank_"+n)
	}
	return err
}

func (b *Bank) GetBalance(ctx context.Context, addr sdk.AccAddress, denom string) sdk.Coin {
	return sdk.Coin{Denom: denom, Amount: NondetIntNonNil("bank_balance")}
}

type FTF struct {
	h          int
	MintDenom  string
	Burns      []fiattokenfactorytypes.MsgBurn
	BurnErrs   []error
	Mints      []fiattokenfactorytypes.MsgMint
	MintErrs   []error
	DenomReads int
	// MayPanic: a failing burn or mint may also fail by panicking (C14)
	MayPanic bool
}

// Burn follows the pinned fiat-token-factory contract: it can succeed only for a strictly positive
// amount of the minting denom (msg_server_burn.go); within that it fails arbitrarily.
func (f *FTF) Burn(ctx sdk.Context, msg *fiattokenfactorytypes.MsgBurn) (*fiattokenfactorytypes.MsgBurnResponse, error) {
	err := NondetErr("burn_err_" + strconv.Itoa(len(f.Burns)))
	if err == nil && !All(msg.Amount.Denom == f.MintDenom, IntCmp(msg.Amount.Amount, IntU64(0)) > 0) {
		err = ndErr{"burn-contract"}
	}
	f.Burns = append(f.Burns, *msg)
	f.BurnErrs = append(f.BurnErrs, err)
	if err != nil && f.MayPanic && NondetBool("burn_panics_"+strconv.Itoa(len(f.Burns)-1)) {
		panic("fiattokenfactory: burn panicked")
	}
	if err != nil {
		return nil, err
	}
	envMark(f.h, ctx, "burn_"+strconv.Itoa(len(f.Burns)-1))
	return &fiattokenfactorytypes.MsgBurnResponse{}, nil
}

func (f *FTF) Mint(ctx sdk.Context, msg *fiattokenfactorytypes.MsgMint) (*fiattokenfactorytypes.MsgMintResponse, error) {
	err := NondetErr("mint_err_" + strconv.Itoa(len(f.Mints)))
	f.Mints = append(f.Mints, *msg)
	f.MintErrs = append(f.MintErrs, err)
	if err != nil && f.MayPanic && NondetBool("mint_panics_"+strconv.Itoa(len(f.Mints)-1)) {
		panic("fiattokenfactory: mint panicked")
	}
	if err != nil {
		return nil, err
	}
	envMark(f.h, ctx, "mint_"+strconv.Itoa(len(f.Mints)-1))
	return &fiattokenfactorytypes.MsgMintResponse{}, nil
}

func (f *FTF) GetMintingDenom(ctx context.Context) fiattokenfactorytypes.MintingDenom {
	f.DenomReads++
	return fiattokenfactorytypes.MintingDenom{Denom: f.MintDenom}
}

// ---------------------------------------------------------------------------------------------
// Addresses

// Addr is a submitter/account string together with what it decodes to.
type Addr struct {
	Str   string // what the transaction carries
	Valid bool   // whether Str is a well-formed bech32 account address
	Bytes []byte // the 20 address bytes when Valid
}

// PRIMITIVE. NondetAddr ranges over four classes: the canonical (lower-case) bech32 spelling of 20
// arbitrary bytes, the all-upper-case spelling of 20 arbitrary bytes (also accepted by the SDK), a
// string that is not a valid address (any string of at most 6 bytes), and the canonical spelling
// preceded by one space (not a valid address).
func NondetAddr(name string) Addr {
	cls := valUint(name + "_class")
	bz := NondetBytes(name+"_bytes", 20)
	if len(bz) != 20 {
		bz = append(bz, make([]byte, 20)...)[:20]
	}
	s, err := sdk.Bech32ifyAddressBytes(sdk.GetConfig().GetBech32AccountAddrPrefix(), bz)
	if err != nil {
		panic(err)
	}
	switch cls {
	case 0:
		return Addr{Str: s, Valid: true, Bytes: bz}
	case 1:
		return Addr{Str: strings.ToUpper(s), Valid: true, Bytes: bz}
	case 3:
		return Addr{Str: " " + s, Valid: false, Bytes: bz}
	}
	return Addr{Str: string(NondetBytes(name+"_junk", 6)), Valid: false, Bytes: bz}
}

// PRIMITIVE. NondetAddrStr is an abstract account string for transactions that only compare such
// strings and test their syntactic validity: symbolically a core of at most 5 printable non-space
// ASCII bytes whose validity is an uninterpreted predicate of the core, optionally preceded by one
// space (which makes it invalid). Natively a valid core is realised as the bech32 address of
// sha256(core)[:20] (an injective realisation) and an invalid one as the bytes themselves.
func NondetAddrStr(name string) (string, bool) {
	bz := NondetBytes(name, 5)
	core := string(bz)
	ok := valUint(name+"_valid") != 0
	if ok {
		h := sha256.Sum256(append([]byte("verif-addr:"), bz...))
		payload := h[:20]
		if dec, usable := decodedPayload(namePrefix + name); usable {
			payload = dec
		}
		s, err := sdk.Bech32ifyAddressBytes(sdk.GetConfig().GetBech32AccountAddrPrefix(), payload)
		if err != nil {
			panic(err)
		}
		core = s
	}
	if !ok && valUint(name+"_wf") != 0 {
		// well-formed bech32 that is not an acceptable account address: the empty payload
		s, err := bech32.ConvertAndEncode(sdk.GetConfig().GetBech32AccountAddrPrefix(), []byte{})
		if err != nil {
			panic(err)
		}
		core = s
	}
	if valUint(name+"_pad") != 0 {
		return " " + core, false
	}
	return core, ok
}

// decodedPayload: the bytes the solver's model says the abstract account string `key` decodes to
// (witness entry key+"_dec"), usable as the account's payload when they form an acceptable address
// (1..32 bytes) and no other abstract account with a different core decodes to the same bytes (the
// symbolic side treats different cores as different strings).
func decodedPayload(key string) ([]byte, bool) {
	v, has := cur.Values[key+"_dec"]
	if !has || v == "nil" {
		return nil, false
	}
	bz, err := hex.DecodeString(v)
	if err != nil || len(bz) < 1 || len(bz) > 32 {
		return nil, false
	}
	for k2, v2 := range cur.Values {
		if strings.HasSuffix(k2, "_dec") && k2 != key+"_dec" && v2 == v && cur.Values[strings.TrimSuffix(k2, "_dec")] != cur.Values[key] {
			return nil, false
		}
	}
	return bz, true
}

// PRIMITIVE. ByteAt is s[i], or 0 when i is out of range (never panics, never forks).
func ByteAt(s string, i int) byte {
	if i < 0 || i >= len(s) {
		return 0
	}
	return s[i]
}

// AddrOf is the canonical account string of 20 bytes (ordinary Go: bech32 is modelled by the engine).
func AddrOf(bz []byte) string {
	s, err := sdk.Bech32ifyAddressBytes(sdk.GetConfig().GetBech32AccountAddrPrefix(), bz)
	if err != nil {
		panic(err)
	}
	return s
}

// Pad32 left-pads b (at most 32 bytes) with zeros to 32 bytes.
func Pad32(b []byte) []byte {
	out := make([]byte, 32)
	copy(out[32-len(b):], b)
	return out
}

// IsZero reports whether every byte of b is zero (single term, no fork per byte).
func IsZero(b []byte) bool {
	var acc byte
	for i := 0; i < len(b); i++ {
		acc |= b[i]
	}
	return acc == 0
}

// ---------------------------------------------------------------------------------------------
// Reference big-endian codecs (deliberately shift-and-or, not encoding/binary)

func RefU32(b []byte, o int) uint32 {
	return uint32(b[o])<<24 | uint32(b[o+1])<<16 | uint32(b[o+2])<<8 | uint32(b[o+3])
}

func RefU64(b []byte, o int) uint64 {
	return uint64(RefU32(b, o))<<32 | uint64(RefU32(b, o+4))
}

func RefPutU32(b []byte, o int, v uint32) {
	b[o] = byte(v >> 24)
	b[o+1] = byte(v >> 16)
	b[o+2] = byte(v >> 8)
	b[o+3] = byte(v)
}

func RefPutU64(b []byte, o int, v uint64) {
	RefPutU32(b, o, uint32(v>>32))
	RefPutU32(b, o+4, uint32(v))
}

// PRIMITIVE. IntFromBytes32 is the unsigned big-endian integer held in b (len(b) <= 32).
func IntFromBytes32(b []byte) math.Int {
	return math.NewIntFromBigInt(new(big.Int).SetBytes(b))
}

// PRIMITIVE. IntEq compares two present integers; a nil integer equals nothing.
func IntEq(a, b math.Int) bool {
	if a.IsNil() || b.IsNil() {
		return false
	}
	return a.Equal(b)
}

// PRIMITIVE. IntIsNil reports absence.
func IntIsNil(a math.Int) bool { return a.IsNil() }

// PRIMITIVE. IntCmp compares present integers (-1,0,1); nil counts as 0.
func IntCmp(a, b math.Int) int {
	x, y := big.NewInt(0), big.NewInt(0)
	if !a.IsNil() {
		x = a.BigInt()
	}
	if !b.IsNil() {
		y = b.BigInt()
	}
	return x.Cmp(y)
}

// PRIMITIVE. IntFitsU256 reports 0 <= a < 2^256 for a present integer.
func IntFitsU256(a math.Int) bool {
	if a.IsNil() {
		return false
	}
	return a.Sign() >= 0 && a.BigInt().BitLen() <= 256
}

// PRIMITIVE. IntU64 builds a math.Int from a uint64.
func IntU64(v uint64) math.Int { return math.NewIntFromUint64(v) }

// ---------------------------------------------------------------------------------------------
// Fork-free byte access and the cryptographic vocabulary of the specifications.

// PRIMITIVE. SubBytes returns the n bytes of b starting at off, zero-padded where b is shorter
// (never panics, never forks). off and n are concrete.
func SubBytes(b []byte, off, n int) []byte {
	out := make([]byte, n)
	if off < len(b) {
		copy(out, b[off:])
	}
	return out
}

// PRIMITIVE. Keccak is Keccak-256.
func Keccak(b []byte) []byte { return ethcrypto.Keccak256(b) }

// PRIMITIVE. Recover is secp256k1 public-key recovery on a 32-byte digest and a 65-byte signature
// whose last byte is the recovery id 0..3; ok is false when recovery fails.
func Recover(digest, sig []byte) (key []byte, ok bool) {
	k, err := ethcrypto.Ecrecover(digest, sig)
	if err != nil || len(k) != 65 {
		return make([]byte, 65), false
	}
	return k, true
}

// PRIMITIVE. EthAddr is the Ethereum-style address of an uncompressed 65-byte public key.
func EthAddr(key []byte) []byte {
	if len(key) != 65 {
		return make([]byte, 20)
	}
	return ethcrypto.Keccak256(key[1:])[12:]
}

// PRIMITIVE. FromHex decodes an attester spelling the way the module does.
func FromHex(s string) []byte { return ethcommon.FromHex(s) }

// PRIMITIVE. BytesLess is lexicographic a < b (single term).
func BytesLess(a, b []byte) bool { return bytes.Compare(a, b) < 0 }

// PRIMITIVE. LowerEq reports whether got is the ASCII lower-casing of s (s is ASCII).
func LowerEq(got, s string) bool { return got == strings.ToLower(s) }

// PRIMITIVE. ModuleAddr is the account address of the named module.
func ModuleAddr(name string) []byte { return authtypes.NewModuleAddress(name) }

// PRIMITIVE. Lower is the lower-casing of s.
func Lower(s string) string { return strings.ToLower(s) }

// PRIMITIVE. IntToBytes32 is the 32-byte big-endian encoding of a (0 <= a < 2^256).
func IntToBytes32(a math.Int) []byte {
	out := make([]byte, 32)
	a.BigInt().FillBytes(out)
	return out
}
