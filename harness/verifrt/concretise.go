package verifrt

// Native concretiser for attestations (DESIGN.md 3.7). The solver's assignment fixes only the SHAPE
// of an attestation (per signature slot: does recovery succeed, which enabled attester -- if any --
// is recovered, how consecutive signer addresses compare, how the recovery id is spelled); hashes
// and recovered keys of the model are uninterpreted. Here the shape is realised with real secp256k1
// keys, real Keccak-256 digests and real signatures, so that the native run takes the same decisions.

import (
	"bytes"
	"crypto/ecdsa"
	"crypto/sha256"
	"encoding/hex"
	"fmt"
	"math/big"
	"sort"
	"strconv"
	"strings"

	ethcrypto "github.com/ethereum/go-ethereum/crypto"
)

// PRIMITIVE. ProbeAttestation records the shape of (message, attestation) against the attester set
// under the names used by the concretiser. Natively it does nothing: the values were already
// rewritten by Begin.
func ProbeAttestation(msgName, attName, attesterPrefix string, msg, att []byte, attesters []string, maxT int) {
}

func seededKey(seed, i int) *ecdsa.PrivateKey {
	for ctr := 0; ; ctr++ {
		h := sha256.Sum256([]byte(fmt.Sprintf("verif-key-%d-%d-%d", seed, i, ctr)))
		k, err := ethcrypto.ToECDSA(h[:])
		if err == nil {
			return k
		}
	}
}

var secpN, _ = new(big.Int).SetString("fffffffffffffffffffffffffffffffebaaedce6af48a03bbfd25e8cd0364141", 16)

// signWithRecID signs digest with k and returns r||s||recid with the requested recovery id parity
// (using the high-s twin when needed). twin=true forces the other (r, n-s) representative.
func signVariants(k *ecdsa.PrivateKey, digest []byte) (a, b []byte) {
	sig, err := ethcrypto.Sign(digest, k)
	if err != nil {
		panic(err)
	}
	tw := make([]byte, 65)
	copy(tw, sig[:32])
	s := new(big.Int).SetBytes(sig[32:64])
	s.Sub(secpN, s)
	s.FillBytes(tw[32:64])
	tw[64] = sig[64] ^ 1
	return sig, tw
}

func probeInt(r *Replay, k string) (int, bool) {
	v, ok := r.Probes[k]
	if !ok {
		return 0, false
	}
	n, err := strconv.Atoi(v)
	return n, err == nil
}

// concretiseAttestations rewrites r.Values for every attestation shape present in r.Probes (one per
// probed message; independent key pools).
func concretiseAttestations(r *Replay) string {
	var tags []string
	for k := range r.Probes {
		if strings.HasPrefix(k, "shape@") && strings.HasSuffix(k, "/msg") {
			tags = append(tags, strings.TrimSuffix(k, "msg"))
		}
	}
	sort.Strings(tags)
	for i, tag := range tags {
		if why := concretiseOne(r, tag, 1+i); why != "" {
			return why
		}
	}
	return ""
}

func concretiseOne(r *Replay, tag string, seedBase int) string {
	msgName := r.Probes[tag+"msg"]
	attName := r.Probes[tag+"att"]
	pfx := r.Probes[tag+"attesters"]
	nAtt, _ := probeInt(r, tag+"n")
	maxT, _ := probeInt(r, tag+"maxT")
	var msg []byte
	if v := r.Values[msgName]; v != "nil" {
		var err error
		msg, err = hex.DecodeString(v)
		if err != nil {
			return "bad message hex"
		}
	}
	var att []byte
	if v := r.Values[attName]; v != "nil" {
		att, _ = hex.DecodeString(v)
	}
	digest := ethcrypto.Keccak256(msg)

	type slot struct {
		present  bool
		vraw     byte
		recok    bool
		member   int // attester index or -1
		negOf    int // non-member whose key has the X coordinate of this attester (its negated key), or -1
		lessPrev bool
	}
	slots := make([]slot, maxT)
	for i := 0; i < maxT; i++ {
		if len(att) < 65*(i+1) {
			continue
		}
		s := &slots[i]
		s.present = true
		s.vraw = att[65*i+64]
		x, _ := probeInt(r, fmt.Sprintf(tag+"recok/%d", i))
		s.recok = x != 0
		s.member, s.negOf = -1, -1
		for j := 0; j < nAtt; j++ {
			if y, _ := probeInt(r, fmt.Sprintf(tag+"member/%d/%d", i, j)); y != 0 {
				s.member = j
				break
			}
		}
		if s.member < 0 {
			for j := 0; j < nAtt; j++ {
				if y, _ := probeInt(r, fmt.Sprintf(tag+"xeq/%d/%d", i, j)); y != 0 {
					s.negOf = j
					break
				}
			}
		}
		if i > 0 {
			y, _ := probeInt(r, fmt.Sprintf(tag+"less/%d", i))
			s.lessPrev = y != 0
		}
	}
	// attesters whose spelling does not decode to 65 bytes in the model get a short literal spelling
	shortLen := make([]int, nAtt)
	for j := 0; j < nAtt; j++ {
		shortLen[j] = -1
		if kl, ok := probeInt(r, fmt.Sprintf(tag+"keylen/%d", j)); ok && kl != 65 {
			shortLen[j] = kl
		}
	}
	shortLead := []byte{0x00, 0x01, 0x02, 0x03, 0x10, 0x40, 0x70, 0xa0, 0xd0, 0xf0}
	shortPick := make([]int, nAtt)
	spelling := func(j int, assign []int, pubHex []string) string {
		if shortLen[j] < 0 {
			return pubHex[assign[j]]
		}
		if shortLen[j] == 0 {
			return "zz"[:0] + "xyz"[:1+shortPick[j]%2] // not hex: decodes to nothing
		}
		bz := bytes.Repeat([]byte{0x11}, shortLen[j])
		bz[0] = shortLead[shortPick[j]%len(shortLead)]
		return hex.EncodeToString(bz)
	}
	// roles: attesters 0..nAtt-1, plus one outsider per slot
	nRoles := nAtt + maxT
	pool := 10 + nRoles
	seed := seedBase
	if v, ok := r.Values["__seed"]; ok {
		x, _ := strconv.Atoi(v)
		seed += 100 * x
	}
	keys := make([]*ecdsa.PrivateKey, pool)
	pubHex := make([]string, pool)
	addrs := make([][]byte, pool)
	for i := range keys {
		keys[i] = seededKey(seed, i)
		pub := ethcrypto.FromECDSAPub(&keys[i].PublicKey)
		pubHex[i] = hex.EncodeToString(pub)
		addrs[i] = ethcrypto.PubkeyToAddress(keys[i].PublicKey).Bytes()
	}
	signerRole := func(i int) int {
		if slots[i].member >= 0 {
			return slots[i].member
		}
		return nAtt + i
	}
	assign := make([]int, nRoles)
	used := make([]bool, pool)
	var found bool
	check := func() bool {
		// attester spellings ascending (the harness enumerates attesters in store order)
		for j := 1; j < nAtt; j++ {
			if !(spelling(j-1, assign, pubHex) < spelling(j, assign, pubHex)) {
				return false
			}
		}
		for i := 1; i < maxT; i++ {
			if !slots[i].present || !slots[i-1].present || !slots[i].recok || !slots[i-1].recok {
				continue
			}
			a, b := addrs[assign[signerRole(i-1)]], addrs[assign[signerRole(i)]]
			if (bytes.Compare(a, b) < 0) != slots[i].lessPrev {
				return false
			}
		}
		return true
	}
	// partial(k): the constraints that only involve roles 0..k hold
	partial := func(k int) bool {
		if k < nAtt && k > 0 {
			if !(spelling(k-1, assign, pubHex) < spelling(k, assign, pubHex)) {
				return false
			}
		}
		for i := 1; i < maxT; i++ {
			if !slots[i].present || !slots[i-1].present || !slots[i].recok || !slots[i-1].recok {
				continue
			}
			ra, rb := signerRole(i-1), signerRole(i)
			if ra > k || rb > k || (ra != k && rb != k) {
				continue
			}
			a, b := addrs[assign[ra]], addrs[assign[rb]]
			if (bytes.Compare(a, b) < 0) != slots[i].lessPrev {
				return false
			}
		}
		return true
	}
	var rec func(k int)
	rec = func(k int) {
		if found {
			return
		}
		if k == nRoles {
			if check() {
				found = true
			}
			return
		}
		for c := 0; c < pool && !found; c++ {
			if used[c] {
				continue
			}
			used[c] = true
			assign[k] = c
			if partial(k) {
				rec(k + 1)
			}
			if found {
				return
			}
			used[c] = false
		}
	}
	// try the short-spelling variants until the ordering constraints can be met
	nVar := 1
	for j := 0; j < nAtt; j++ {
		if shortLen[j] >= 0 {
			nVar *= len(shortLead)
		}
	}
	for v := 0; v < nVar && !found; v++ {
		x := v
		for j := 0; j < nAtt; j++ {
			if shortLen[j] >= 0 {
				shortPick[j] = x % len(shortLead)
				x /= len(shortLead)
			}
		}
		for i := range used {
			used[i] = false
		}
		rec(0)
	}
	if !found {
		return "no key assignment realises the shape"
	}
	// attester spellings
	for j := 0; j < nAtt; j++ {
		r.Values[fmt.Sprintf("%s%d", pfx, j)] = hex.EncodeToString([]byte(spelling(j, assign, pubHex)))
	}
	// signatures
	out := append([]byte{}, att...)
	type prevSig struct {
		role  int
		model []byte
		real  []byte
	}
	var done []prevSig
	for i := 0; i < maxT; i++ {
		s := slots[i]
		if !s.present {
			continue
		}
		modelSig := att[65*i : 65*i+65]
		nv := s.vraw
		legacy := false
		if nv == 27 || nv == 28 {
			nv -= 27
			legacy = true
		}
		if !s.recok || nv >= 4 {
			// recovery must fail: r = s = 0 is never a valid signature
			for k := 0; k < 64; k++ {
				out[65*i+k] = 0
			}
			continue
		}
		if nv >= 2 {
			return "shape needs a successful recovery with recovery id 2/3"
		}
		role := signerRole(i)
		signKey := keys[assign[role]]
		if s.negOf >= 0 {
			// the key with the same X coordinate as attester negOf and the opposite Y: d' = n - d
			d := new(big.Int).Sub(secpN, keys[assign[s.negOf]].D)
			buf := make([]byte, 32)
			d.FillBytes(buf)
			nk, err := ethcrypto.ToECDSA(buf)
			if err != nil {
				return "cannot build the negated key"
			}
			signKey = nk
		}
		a, b := signVariants(signKey, digest)
		var pick []byte
		// identical model bytes => identical real bytes; same signer with different bytes => the twin
		for _, d := range done {
			if d.role == role {
				if bytes.Equal(d.model[:64], modelSig[:64]) {
					pick = d.real
				} else if bytes.Equal(d.real[:64], a[:64]) {
					pick = b
				} else {
					pick = a
				}
			}
		}
		if pick == nil {
			if a[64] == nv {
				pick = a
			} else {
				pick = b
			}
		}
		if pick[64] != nv {
			// the recovery id of a given (r,s) is fixed: respell the model's id instead
			nv = pick[64]
		}
		copy(out[65*i:], pick[:64])
		if legacy {
			out[65*i+64] = nv + 27
		} else {
			out[65*i+64] = nv
		}
		done = append(done, prevSig{role: role, model: append([]byte{}, modelSig...), real: pick})
	}
	if r.Values[attName] != "nil" {
		r.Values[attName] = hex.EncodeToString(out)
	}
	_ = sort.Ints
	return ""
}

// PRIMITIVE. HonestAttester is the spelling of the i-th honest attester: symbolically an arbitrary
// short string; natively the hex encoding of the uncompressed public key of seeded key i.
func HonestAttester(i int) string {
	k := seededKey(7, i)
	return hex.EncodeToString(ethcrypto.FromECDSAPub(&k.PublicKey))
}

// PRIMITIVE. HonestAttestation is an attestation of msg by the honest attesters 0..t-1: symbolically
// arbitrary 65*t bytes (the harness assumes that they satisfy the attestation rule); natively real
// signatures over keccak256(msg), ordered by signer address, recovery ids 0/1.
func HonestAttestation(name string, msg []byte, t int) []byte {
	return HonestAttestationBy(name, msg, 0, t)
}

// PRIMITIVE. HonestAttestationBy is an attestation of msg by the honest attesters first..first+t-1.
func HonestAttestationBy(name string, msg []byte, first, t int) []byte {
	digest := ethcrypto.Keccak256(msg)
	type sg struct {
		addr []byte
		sig  []byte
	}
	var sigs []sg
	for i := first; i < first+t; i++ {
		k := seededKey(7, i)
		s, err := ethcrypto.Sign(digest, k)
		if err != nil {
			panic(err)
		}
		sigs = append(sigs, sg{addr: ethcrypto.PubkeyToAddress(k.PublicKey).Bytes(), sig: s})
	}
	sort.Slice(sigs, func(i, j int) bool { return bytes.Compare(sigs[i].addr, sigs[j].addr) < 0 })
	var out []byte
	for _, s := range sigs {
		out = append(out, s.sig...)
	}
	return out
}
