package verifrt

import (
	"encoding/json"
	"os"
	"strings"
	"testing"
)

// ReplayMain is the body of TestVerifReplay in every harness package: it runs each replay file
// listed in $VERIF_REPLAY_LIST whose harness is registered in this test binary and writes
// <file>.out with what happened.
func ReplayMain(t *testing.T) {
	list := os.Getenv("VERIF_REPLAY_LIST")
	if list == "" {
		t.Skip("no VERIF_REPLAY_LIST")
	}
	bz, err := os.ReadFile(list)
	if err != nil {
		t.Fatal(err)
	}
	for _, f := range strings.Split(strings.TrimSpace(string(bz)), "\n") {
		if f == "" {
			continue
		}
		r, err := LoadReplay(f)
		if err != nil {
			t.Errorf("%s: %v", f, err)
			continue
		}
		h := Lookup(r.Harness)
		if h == nil {
			t.Errorf("%s: harness %s not registered in this package", f, r.Harness)
			continue
		}
		Begin(r)
		RunHarness(h)
		out, _ := json.MarshalIndent(End(), "", " ")
		if err := os.WriteFile(f+".out", out, 0o644); err != nil {
			t.Error(err)
		}
	}
}
