package cctp

// C17 (import/export part).

import (
	"bytes"

	"github.com/circlefin/noble-cctp/x/cctp/keeper"
	"github.com/circlefin/noble-cctp/x/cctp/types"
	"github.com/circlefin/noble-cctp/x/cctp/verifrt"
)

func init() {
	verifrt.Register("Harness_C17_InitThenExport", Harness_C17_InitThenExport)
	verifrt.Register("Harness_C17_ExportThenInit", Harness_C17_ExportThenInit)
}

func newKeeper(env *verifrt.Env) *keeper.Keeper {
	return keeper.NewKeeper(env.Cdc, env.Log, env.StoreService, env.Bank, env.FTF)
}

// any genesis accepted by validation and initialisation is reproduced by export (lists as sets,
// absent optional fields replaced by the documented defaults: both pauses on, 8000, 0, 1).
func Harness_C17_InitThenExport() {
	env := verifrt.NewEnv()
	k := newKeeper(env)
	g := types.GenesisState{
		Owner:           verifrt.NondetString("owner", 3),
		AttesterManager: verifrt.NondetString("attmgr", 3),
		Pauser:          verifrt.NondetString("pauser", 3),
		TokenController: verifrt.NondetString("tokctl", 3),
		AttesterList:    []types.Attester{{Attester: verifrt.NondetString("att0", 3)}, {Attester: verifrt.NondetString("att1", 3)}},
		PerMessageBurnLimitList: []types.PerMessageBurnLimit{
			{Denom: verifrt.NondetString("denom0", 3), Amount: verifrt.NondetIntNonNil("limit0")},
			{Denom: verifrt.NondetString("denom1", 3), Amount: verifrt.NondetIntNonNil("limit1")}},
		TokenPairList: []types.TokenPair{
			{RemoteDomain: verifrt.NondetU32("pd0"), RemoteToken: verifrt.NondetBytes("pt0", 32), LocalToken: verifrt.NondetString("pl0", 3)},
			{RemoteDomain: verifrt.NondetU32("pd1"), RemoteToken: verifrt.NondetBytes("pt1", 32), LocalToken: verifrt.NondetString("pl1", 3)}},
		UsedNoncesList: []types.Nonce{
			{SourceDomain: verifrt.NondetU32("ud0"), Nonce: verifrt.NondetU64("un0")},
			{SourceDomain: verifrt.NondetU32("ud1"), Nonce: verifrt.NondetU64("un1")}},
		TokenMessengerList: []types.RemoteTokenMessenger{
			{DomainId: verifrt.NondetU32("md0"), Address: verifrt.NondetBytes("ma0", 32)},
			{DomainId: verifrt.NondetU32("md1"), Address: verifrt.NondetBytes("ma1", 32)}},
	}
	verifrt.Assume(verifrt.All(verifrt.IsASCII(g.PerMessageBurnLimitList[0].Denom), verifrt.IsASCII(g.PerMessageBurnLimitList[1].Denom),
		verifrt.IsASCII(g.AttesterList[0].Attester), verifrt.IsASCII(g.AttesterList[1].Attester)))
	verifrt.Assume(verifrt.All(len(g.TokenPairList[0].RemoteToken) == 32, len(g.TokenPairList[1].RemoteToken) == 32,
		len(g.TokenMessengerList[0].Address) == 32, len(g.TokenMessengerList[1].Address) == 32))
	// the four role strings are compared, not decoded, by export: validation of their syntax is C11's
	g.BurningAndMintingPaused = &types.BurningAndMintingPaused{Paused: verifrt.NondetBool("bp")}
	g.SendingAndReceivingMessagesPaused = &types.SendingAndReceivingMessagesPaused{Paused: verifrt.NondetBool("sp")}
	hasMax, hasNonce, hasThr := verifrt.NondetBool("has_max"), verifrt.NondetBool("has_nonce"), verifrt.NondetBool("has_thr")
	maxv, noncev, thrv := verifrt.NondetU64("maxv"), verifrt.NondetU64("noncev"), verifrt.NondetU32("thrv")
	if hasMax {
		g.MaxMessageBodySize = &types.MaxMessageBodySize{Amount: maxv}
	}
	if hasNonce {
		g.NextAvailableNonce = &types.Nonce{Nonce: noncev}
	}
	if hasThr {
		g.SignatureThreshold = &types.SignatureThreshold{Amount: thrv}
		verifrt.Assume(thrv != 0) // initialisation refuses a zero threshold
	}
	// accepted by validation (role strings empty or valid is checked there; here they are made empty-or-junk-free by using the keyed lists only)
	gv := g
	gv.Owner, gv.AttesterManager, gv.Pauser, gv.TokenController = "", "", "", ""
	verifrt.Assume(gv.Validate() == nil)
	InitGenesis(env.Ctx, k, g)
	verifrt.Cover("initialised")
	out := ExportGenesis(env.Ctx, k)
	verifrt.Assert("C17/init-export/roles", verifrt.All(out.Owner == g.Owner, out.AttesterManager == g.AttesterManager, out.Pauser == g.Pauser, out.TokenController == g.TokenController))
	verifrt.Assert("C17/init-export/flags", verifrt.All(out.BurningAndMintingPaused != nil, out.SendingAndReceivingMessagesPaused != nil))
	if out.BurningAndMintingPaused != nil && out.SendingAndReceivingMessagesPaused != nil {
		verifrt.Assert("C17/init-export/flag-values", verifrt.All(out.BurningAndMintingPaused.Paused == g.BurningAndMintingPaused.Paused,
			out.SendingAndReceivingMessagesPaused.Paused == g.SendingAndReceivingMessagesPaused.Paused))
	}
	verifrt.Assert("C17/init-export/scalars-present", verifrt.All(out.MaxMessageBodySize != nil, out.NextAvailableNonce != nil, out.SignatureThreshold != nil))
	if out.MaxMessageBodySize != nil && out.NextAvailableNonce != nil && out.SignatureThreshold != nil {
		verifrt.Assert("C17/init-export/scalar-values", verifrt.All(
			out.MaxMessageBodySize.Amount == verifrt.Ite64(hasMax, maxv, 8000),
			out.NextAvailableNonce.Nonce == verifrt.Ite64(hasNonce, noncev, 0),
			uint64(out.SignatureThreshold.Amount) == verifrt.Ite64(hasThr, uint64(thrv), 1)))
	}
	// lists as sets
	okAtt := len(out.AttesterList) == 2
	for _, x := range g.AttesterList {
		f := false
		for _, y := range out.AttesterList {
			f = verifrt.Any(f, y.Attester == x.Attester)
		}
		okAtt = verifrt.All(okAtt, f)
	}
	verifrt.Assert("C17/init-export/attesters", okAtt)
	okLim := len(out.PerMessageBurnLimitList) == 2
	for _, x := range g.PerMessageBurnLimitList {
		f := false
		for _, y := range out.PerMessageBurnLimitList {
			f = verifrt.Any(f, verifrt.All(y.Denom == x.Denom, verifrt.IntEq(y.Amount, x.Amount)))
		}
		okLim = verifrt.All(okLim, f)
	}
	verifrt.Assert("C17/init-export/burn-limits", okLim)
	okPair := len(out.TokenPairList) == 2
	for _, x := range g.TokenPairList {
		f := false
		for _, y := range out.TokenPairList {
			f = verifrt.Any(f, verifrt.All(y.RemoteDomain == x.RemoteDomain, bytes.Equal(y.RemoteToken, x.RemoteToken), y.LocalToken == x.LocalToken))
		}
		okPair = verifrt.All(okPair, f)
	}
	verifrt.Assert("C17/init-export/token-pairs", okPair)
	okUsed := len(out.UsedNoncesList) == 2
	for _, x := range g.UsedNoncesList {
		f := false
		for _, y := range out.UsedNoncesList {
			f = verifrt.Any(f, verifrt.All(y.SourceDomain == x.SourceDomain, y.Nonce == x.Nonce))
		}
		okUsed = verifrt.All(okUsed, f)
	}
	verifrt.Assert("C17/init-export/used-nonces", okUsed)
	okMsgr := len(out.TokenMessengerList) == 2
	for _, x := range g.TokenMessengerList {
		f := false
		for _, y := range out.TokenMessengerList {
			f = verifrt.Any(f, verifrt.All(y.DomainId == x.DomainId, bytes.Equal(y.Address, x.Address)))
		}
		okMsgr = verifrt.All(okMsgr, f)
	}
	verifrt.Assert("C17/init-export/token-messengers", okMsgr)
}

// any state built by the module's setters is reproduced entry by entry by export followed by import
// into an empty store.
func Harness_C17_ExportThenInit() {
	e1 := verifrt.NewEnv()
	k1 := newKeeper(e1)
	ctx := e1.Ctx
	k1.SetOwner(ctx, verifrt.NondetString("owner", 3))
	k1.SetAttesterManager(ctx, verifrt.NondetString("attmgr", 3))
	k1.SetPauser(ctx, verifrt.NondetString("pauser", 3))
	k1.SetTokenController(ctx, verifrt.NondetString("tokctl", 3))
	pendingSet := verifrt.NondetBool("pending_set")
	if pendingSet {
		k1.SetPendingOwner(ctx, verifrt.NondetString("pending", 3))
	}
	k1.SetBurningAndMintingPaused(ctx, types.BurningAndMintingPaused{Paused: verifrt.NondetBool("bp")})
	k1.SetSendingAndReceivingMessagesPaused(ctx, types.SendingAndReceivingMessagesPaused{Paused: verifrt.NondetBool("sp")})
	k1.SetMaxMessageBodySize(ctx, types.MaxMessageBodySize{Amount: verifrt.NondetU64("maxv")})
	k1.SetNextAvailableNonce(ctx, types.Nonce{Nonce: verifrt.NondetU64("noncev")})
	thr := verifrt.NondetU32("thrv")
	verifrt.Assume(thr != 0)
	k1.SetSignatureThreshold(ctx, types.SignatureThreshold{Amount: thr})
	k1.SetAttester(ctx, types.Attester{Attester: verifrt.NondetString("att0", 3)})
	k1.SetPerMessageBurnLimit(ctx, types.PerMessageBurnLimit{Denom: verifrt.NondetString("denom0", 3), Amount: verifrt.NondetIntNonNil("limit0")})
	pt := verifrt.NondetBytes("pt0", 32)
	verifrt.Assume(len(pt) == 32)
	k1.SetTokenPair(ctx, types.TokenPair{RemoteDomain: verifrt.NondetU32("pd0"), RemoteToken: pt, LocalToken: verifrt.NondetString("pl0", 3)})
	k1.SetUsedNonce(ctx, types.Nonce{SourceDomain: verifrt.NondetU32("ud0"), Nonce: verifrt.NondetU64("un0")})
	ma := verifrt.NondetBytes("ma0", 32)
	verifrt.Assume(len(ma) == 32)
	k1.SetRemoteTokenMessenger(ctx, types.RemoteTokenMessenger{DomainId: verifrt.NondetU32("md0"), Address: ma})

	g := ExportGenesis(ctx, k1)
	e2 := verifrt.NewEnv()
	k2 := newKeeper(e2)
	InitGenesis(e2.Ctx, k2, *g)
	verifrt.Cover("reimported")

	pendingKey := e1.KeysReadBy(func() { k1.GetPendingOwner(ctx) })
	s1, s2 := e1.AllEntries(), e2.AllEntries()
	isPending := func(k []byte) bool { return len(pendingKey) == 1 && bytes.Equal(k, pendingKey[0]) }
	// every entry other than the pending-owner slot is reproduced, and nothing is invented
	fwd := true
	for _, x := range s1 {
		f := false
		for _, y := range s2 {
			f = verifrt.Any(f, verifrt.All(bytes.Equal(x.Key, y.Key), bytes.Equal(x.Value, y.Value)))
		}
		fwd = verifrt.All(fwd, verifrt.Any(isPending(x.Key), f))
	}
	verifrt.Assert("C17/export-import/entries-reproduced", fwd)
	bwd := true
	for _, y := range s2 {
		f := false
		for _, x := range s1 {
			f = verifrt.Any(f, verifrt.All(bytes.Equal(x.Key, y.Key), bytes.Equal(x.Value, y.Value)))
		}
		bwd = verifrt.All(bwd, f)
	}
	verifrt.Assert("C17/export-import/nothing-invented", bwd)
	p1, f1 := k1.GetPendingOwner(ctx)
	p2, f2 := k2.GetPendingOwner(e2.Ctx)
	verifrt.Assert("C17/export-import/pending-owner-slot", verifrt.All(f1 == f2, verifrt.Implies(f1, p1 == p2)))
}

func init() {
	verifrt.Register("Harness_C02_ExportListsExactlyTheUsedPairs", Harness_C02_ExportListsExactlyTheUsedPairs)
}

// C02 (genesis side): the used pairs handed to a new chain by export are exactly the stored ones, so a
// pair is reported as used after an upgrade iff it was used before it.
func Harness_C02_ExportListsExactlyTheUsedPairs() {
	env := verifrt.NewEnv()
	k := newKeeper(env)
	ctx := env.Ctx
	k.SetOwner(ctx, "o")
	k.SetAttesterManager(ctx, "a")
	k.SetPauser(ctx, "p")
	k.SetTokenController(ctx, "t")
	d0, n0 := verifrt.NondetU32("ud0"), verifrt.NondetU64("un0")
	d1, n1 := verifrt.NondetU32("ud1"), verifrt.NondetU64("un1")
	verifrt.Assume(verifrt.Any(d0 != d1, n0 != n1))
	k.SetUsedNonce(ctx, types.Nonce{SourceDomain: d0, Nonce: n0})
	k.SetUsedNonce(ctx, types.Nonce{SourceDomain: d1, Nonce: n1})
	g := ExportGenesis(ctx, k)
	verifrt.Cover("exported")
	ok := len(g.UsedNoncesList) == 2
	has0, has1 := false, false
	for _, x := range g.UsedNoncesList {
		has0 = verifrt.Any(has0, verifrt.All(x.SourceDomain == d0, x.Nonce == n0))
		has1 = verifrt.Any(has1, verifrt.All(x.SourceDomain == d1, x.Nonce == n1))
	}
	verifrt.Assert("C02/export/lists-exactly-the-used-pairs", verifrt.All(ok, has0, has1))
	// and import marks exactly those
	e2 := verifrt.NewEnv()
	k2 := newKeeper(e2)
	InitGenesis(e2.Ctx, k2, *g)
	d2, n2 := verifrt.NondetU32("other_domain"), verifrt.NondetU64("other_nonce")
	after := k2.GetUsedNonce(e2.Ctx, types.Nonce{SourceDomain: d2, Nonce: n2})
	listed := verifrt.Any(verifrt.All(d2 == d0, n2 == n0), verifrt.All(d2 == d1, n2 == n1))
	verifrt.Assert("C02/import/used-iff-listed", after == listed)
}

func init() {
	verifrt.Register("Harness_C17_ExportLongLists", Harness_C17_ExportLongLists)
}

// the lists of an export are complete whatever their length: 130 entries per keyed registry (more than
// any page size used by the SDK's pagination helpers), keys concrete, values symbolic where the entry
// has one (token pairs excepted: their keys are hashes, whose order the solver would have to decide
// 130! ways). Exported and re-imported, every entry is still there.
func Harness_C17_ExportLongLists() {
	const n = 130
	e1 := verifrt.NewEnv()
	k1 := newKeeper(e1)
	ctx := e1.Ctx
	k1.SetOwner(ctx, "o")
	k1.SetAttesterManager(ctx, "a")
	k1.SetPauser(ctx, "p")
	k1.SetTokenController(ctx, "t")
	lim := verifrt.NondetIntNonNil("limit")
	addr := verifrt.NondetBytes("addr", 32)
	verifrt.Assume(len(addr) == 32)
	for i := 0; i < n; i++ {
		s := string([]byte{'a' + byte(i/26), 'a' + byte(i%26)})
		k1.SetUsedNonce(ctx, types.Nonce{SourceDomain: uint32(i % 3), Nonce: uint64(i)})
		k1.SetAttester(ctx, types.Attester{Attester: s})
		k1.SetPerMessageBurnLimit(ctx, types.PerMessageBurnLimit{Denom: s, Amount: lim})
		k1.SetRemoteTokenMessenger(ctx, types.RemoteTokenMessenger{DomainId: uint32(i), Address: addr})
	}
	g := ExportGenesis(ctx, k1)
	verifrt.Cover("exported")
	verifrt.Assert("C17/export/long-lists-complete", verifrt.All(len(g.UsedNoncesList) == n, len(g.AttesterList) == n,
		len(g.PerMessageBurnLimitList) == n, len(g.TokenMessengerList) == n))
	e2 := verifrt.NewEnv()
	k2 := newKeeper(e2)
	InitGenesis(e2.Ctx, k2, *g)
	g2 := ExportGenesis(e2.Ctx, k2)
	verifrt.Assert("C17/export-import/long-lists-reimported", verifrt.All(len(g2.UsedNoncesList) == n, len(g2.AttesterList) == n,
		len(g2.PerMessageBurnLimitList) == n, len(g2.TokenMessengerList) == n,
		k2.GetUsedNonce(e2.Ctx, types.Nonce{SourceDomain: uint32((n - 1) % 3), Nonce: uint64(n - 1)})))
}
