package cctp

// C18 (genesis export and list getters): the same state exported repeatedly, and on different keeper
// instances, gives identical results in identical order.

import (
	"bytes"

	"github.com/circlefin/noble-cctp/x/cctp/types"
	"github.com/circlefin/noble-cctp/x/cctp/verifrt"
)

func init() {
	verifrt.Register("Harness_C18_ExportIsReplayStable", Harness_C18_ExportIsReplayStable)
}

func c18state() (*verifrt.Env, *types.GenesisState) {
	env := verifrt.NewEnv()
	k := newKeeper(env)
	ctx := env.Ctx
	k.SetOwner(ctx, verifrt.NondetString("owner", 3))
	k.SetAttesterManager(ctx, verifrt.NondetString("attmgr", 3))
	k.SetPauser(ctx, verifrt.NondetString("pauser", 3))
	k.SetTokenController(ctx, verifrt.NondetString("tokctl", 3))
	for i := 0; i < 2; i++ {
		s := string(rune('0' + i))
		k.SetAttester(ctx, types.Attester{Attester: verifrt.NondetString("att"+s, 3)})
		k.SetPerMessageBurnLimit(ctx, types.PerMessageBurnLimit{Denom: verifrt.NondetString("denom"+s, 3), Amount: verifrt.NondetIntNonNil("limit" + s)})
		pt := verifrt.NondetBytes("pt"+s, 32)
		verifrt.Assume(len(pt) == 32)
		k.SetTokenPair(ctx, types.TokenPair{RemoteDomain: verifrt.NondetU32("pd" + s), RemoteToken: pt, LocalToken: verifrt.NondetString("pl"+s, 3)})
		k.SetUsedNonce(ctx, types.Nonce{SourceDomain: verifrt.NondetU32("ud" + s), Nonce: verifrt.NondetU64("un" + s)})
		ma := verifrt.NondetBytes("ma"+s, 32)
		verifrt.Assume(len(ma) == 32)
		k.SetRemoteTokenMessenger(ctx, types.RemoteTokenMessenger{DomainId: verifrt.NondetU32("md" + s), Address: ma})
	}
	return env, ExportGenesis(ctx, k)
}

func sameGenesis(a, b *types.GenesisState) bool {
	ok := verifrt.All(a.Owner == b.Owner, a.AttesterManager == b.AttesterManager, a.Pauser == b.Pauser, a.TokenController == b.TokenController,
		len(a.AttesterList) == len(b.AttesterList), len(a.PerMessageBurnLimitList) == len(b.PerMessageBurnLimitList),
		len(a.TokenPairList) == len(b.TokenPairList), len(a.UsedNoncesList) == len(b.UsedNoncesList), len(a.TokenMessengerList) == len(b.TokenMessengerList))
	if !ok {
		return false
	}
	for i := range a.AttesterList {
		ok = verifrt.All(ok, a.AttesterList[i].Attester == b.AttesterList[i].Attester)
	}
	for i := range a.PerMessageBurnLimitList {
		ok = verifrt.All(ok, a.PerMessageBurnLimitList[i].Denom == b.PerMessageBurnLimitList[i].Denom)
	}
	for i := range a.TokenPairList {
		ok = verifrt.All(ok, a.TokenPairList[i].RemoteDomain == b.TokenPairList[i].RemoteDomain, bytes.Equal(a.TokenPairList[i].RemoteToken, b.TokenPairList[i].RemoteToken))
	}
	for i := range a.UsedNoncesList {
		ok = verifrt.All(ok, a.UsedNoncesList[i].SourceDomain == b.UsedNoncesList[i].SourceDomain, a.UsedNoncesList[i].Nonce == b.UsedNoncesList[i].Nonce)
	}
	for i := range a.TokenMessengerList {
		ok = verifrt.All(ok, a.TokenMessengerList[i].DomainId == b.TokenMessengerList[i].DomainId)
	}
	return ok
}

func Harness_C18_ExportIsReplayStable() {
	_, g1 := c18state()
	same := true
	n := verifrt.Repeat()
	for i := 0; i < n; i++ {
		_, g2 := c18state()
		same = verifrt.All(same, sameGenesis(g1, g2))
	}
	verifrt.Cover("exported")
	verifrt.Assert("C18/export/identical-on-every-replay", same)
}
