package cli

// C20 (command-line address parser): any address argument yields bytes or an error, never a panic.

import (
	"github.com/circlefin/noble-cctp/x/cctp/verifrt"
)

func init() {
	verifrt.Register("Harness_C20_ParseAddress", Harness_C20_ParseAddress)
	verifrt.Register("Harness_C20_LeftPadBytes", Harness_C20_LeftPadBytes)
}

func Harness_C20_ParseAddress() {
	s := verifrt.NondetString("address", 60)
	panicked := verifrt.Catch(func() { parseAddress(s) })
	verifrt.Cover("parsed")
	verifrt.Assert("C20/cli/parse-address-no-panic", !panicked)
}

func Harness_C20_LeftPadBytes() {
	bz := verifrt.NondetBytesOrNil("bz", 40)
	var out []byte
	var err error
	panicked := verifrt.Catch(func() { out, err = leftPadBytes(bz) })
	verifrt.Cover("padded")
	verifrt.Assert("C20/cli/left-pad-no-panic", !panicked)
	if !panicked {
		verifrt.Assert("C20/cli/left-pad-result", verifrt.Any(verifrt.All(err != nil, len(bz) > 32), verifrt.All(err == nil, len(out) == 32)))
	}
}
