package keeper

// Multi-transaction compositions (bounded unrollings from an arbitrary invariant-satisfying state).
// They re-check consequences of the one-step lemmas over real sequences of handler calls, so that the
// history claims do not rest on the induction argument alone.

import (
	"github.com/circlefin/noble-cctp/x/cctp/types"
	"github.com/circlefin/noble-cctp/x/cctp/verifrt"
)

func init() {
	verifrt.Register("Harness_C11_SupersededPendingOwnerCannotAccept", Harness_C11_SupersededPendingOwnerCannotAccept)
	verifrt.Register("Harness_C11_AcceptanceCannotBeReplayed", Harness_C11_AcceptanceCannotBeReplayed)
	verifrt.Register("HarnessT_C07_ThreeProducersGetConsecutiveNonces", HarnessT_C07_ThreeProducersGetConsecutiveNonces)
	verifrt.Register("Harness_C02_SecondReceiveOfTheSamePairFails", Harness_C02_SecondReceiveOfTheSamePairFails)
	verifrt.Register("Harness_C04_SameBurnMessageMintsOnce", Harness_C04_SameBurnMessageMintsOnce)
	verifrt.Register("Harness_C12_PauseThenUnpauseRestoresSending", Harness_C12_PauseThenUnpauseRestoresSending)
}

// owner names A, then names B; A can no longer accept (unless A == B), B can.
func Harness_C11_SupersededPendingOwnerCannotAccept() {
	h := newH("")
	h.setupAdminState(1)
	ctx := h.Env.Ctx
	a, aValid := verifrt.NondetAddrStr("nominee_a")
	b, bValid := verifrt.NondetAddrStr("nominee_b")
	owner := h.Role[slotOwner]
	_, e1 := h.S.UpdateOwner(ctx, &types.MsgUpdateOwner{From: owner, NewOwner: a})
	_, e2 := h.S.UpdateOwner(ctx, &types.MsgUpdateOwner{From: owner, NewOwner: b})
	verifrt.Assert("C11/sequence/owner-can-name-valid-nominees", verifrt.All((e1 == nil) == aValid, (e2 == nil) == bValid))
	if e1 != nil || e2 != nil {
		verifrt.Cover("nomination-rejected")
		return
	}
	verifrt.Cover("superseded")
	_, e3 := h.S.AcceptOwner(ctx, &types.MsgAcceptOwner{From: a})
	verifrt.Assert("C11/sequence/superseded-pending-owner-cannot-accept", verifrt.Implies(a != b, e3 != nil))
	if e3 != nil {
		_, e4 := h.S.AcceptOwner(ctx, &types.MsgAcceptOwner{From: b})
		verifrt.Assert("C11/sequence/latest-pending-owner-can-accept", e4 == nil)
		if e4 == nil {
			verifrt.Assert("C11/sequence/acceptance-makes-owner", h.K.GetOwner(ctx) == b)
		}
	}
}

// after an acceptance the pending slot is empty: the same acceptance cannot be replayed, and the
// previous owner has lost the role
func Harness_C11_AcceptanceCannotBeReplayed() {
	h := newH("")
	h.setupAdminState(1)
	ctx := h.Env.Ctx
	verifrt.Assume(h.PendingSet)
	p := h.Role[slotPending]
	old := h.Role[slotOwner]
	_, e1 := h.S.AcceptOwner(ctx, &types.MsgAcceptOwner{From: p})
	verifrt.Assert("C11/sequence/pending-owner-accepts", e1 == nil)
	if e1 != nil {
		return
	}
	verifrt.Cover("accepted")
	_, e2 := h.S.AcceptOwner(ctx, &types.MsgAcceptOwner{From: p})
	verifrt.Assert("C11/sequence/acceptance-not-replayable", e2 != nil)
	nw, _ := verifrt.NondetAddrStr("later_nominee")
	_, e3 := h.S.UpdateOwner(ctx, &types.MsgUpdateOwner{From: old, NewOwner: nw})
	verifrt.Assert("C11/sequence/previous-owner-lost-the-role", verifrt.Implies(old != p, e3 != nil))
}

// three producing transactions in a row (send, failing or succeeding; deposit; send with caller):
// the successes carry start, start+1, ... in order and the counter ends at start + #successes
func HarnessT_C07_ThreeProducersGetConsecutiveNonces() {
	h := newH("")
	c := producerCaps()
	c.body = 2
	h.setupUserState(1, c)
	ctx := h.Env.Ctx
	start := h.NextNonce
	count := uint64(0)
	okAll := true
	kinds := []int{hSendMessage, hDepositForBurn, hSendMessageWithCaller}
	for i, k := range kinds {
		verifrt.PushPrefix("s" + string(rune('1'+i)) + "_")
		ok, _, m := h.callUser(k, c)
		verifrt.PopPrefix()
		if ok {
			okAll = verifrt.All(okAll, m.Nonce == start+count)
			count++
		}
		// failed attempts are rolled back by the SDK; here the harness restores the counter the way
		// the rollback would, so that the next step starts from the committed state
		if !ok {
			h.K.SetNextAvailableNonce(ctx, types.Nonce{Nonce: start + count})
		}
	}
	verifrt.Cover("ran")
	after, found := h.K.GetNextAvailableNonce(ctx)
	verifrt.Assert("C07/sequence/successes-carry-consecutive-nonces", okAll)
	verifrt.Assert("C07/sequence/counter-is-start-plus-successes", verifrt.All(found, after.Nonce == start+count))
}

// a message is received; any second message for the same (source domain, nonce) -- other body, other
// recipient, other attestation, other submitter -- is refused afterwards
func Harness_C02_SecondReceiveOfTheSamePairFails() {
	h := newH("")
	c := smallCaps()
	c.att = 66
	c.msg = 116 + 4
	h.setupHonestState(1, 1, c)
	ctx := h.Env.Ctx
	m1 := verifrt.NondetBytes("m1_message", c.msg)
	m2 := verifrt.NondetBytes("m2_message", c.msg)
	a1 := verifrt.HonestAttestation("m1_attestation", m1, 1)
	a2 := verifrt.HonestAttestation("m2_attestation", m2, 1)
	verifrt.Assume(refAttestationValid(m1, a1, h.Att, 1, 1))
	verifrt.Assume(refAttestationValid(m2, a2, h.Att, 1, 1))
	r1, r2 := refDecode(m1), refDecode(m2)
	verifrt.Assume(verifrt.All(r1.LongEnough, r2.LongEnough, r1.Src == r2.Src, r1.Nonce == r2.Nonce))
	f1, f2 := verifrt.NondetAddr("from1"), verifrt.NondetAddr("from2")
	_, e1 := h.S.ReceiveMessage(ctx, &types.MsgReceiveMessage{From: f1.Str, Message: m1, Attestation: a1})
	if e1 != nil {
		verifrt.Cover("first-rejected")
		return
	}
	verifrt.Cover("first-accepted")
	// an arbitrary pause toggle by the pauser in between does not reopen the pair
	if verifrt.NondetBool("toggle_between") {
		h.S.PauseBurningAndMinting(ctx, &types.MsgPauseBurningAndMinting{From: h.Role[slotPauser]})
		h.S.UnpauseBurningAndMinting(ctx, &types.MsgUnpauseBurningAndMinting{From: h.Role[slotPauser]})
	}
	_, e2 := h.S.ReceiveMessage(ctx, &types.MsgReceiveMessage{From: f2.Str, Message: m2, Attestation: a2})
	verifrt.Assert("C02/sequence/second-receive-of-the-pair-fails", e2 != nil)
}

// the same attested burn message delivered twice: whatever the second delivery returns, it adds no mint
// (C04: total minted is the sum over the DISTINCT accepted burn messages)
func Harness_C04_SameBurnMessageMintsOnce() {
	h := newH("")
	c := smallCaps()
	c.att = 66
	c.msg = 116 + 132
	h.setupHonestState(1, 1, c)
	ctx := h.Env.Ctx
	m := verifrt.NondetBytes("m1_message", c.msg)
	a := verifrt.HonestAttestation("m1_attestation", m, 1)
	verifrt.Assume(refAttestationValid(m, a, h.Att, 1, 1))
	f1, f2 := verifrt.NondetAddr("from1"), verifrt.NondetAddr("from2")
	_, e1 := h.S.ReceiveMessage(ctx, &types.MsgReceiveMessage{From: f1.Str, Message: m, Attestation: a})
	if e1 != nil {
		verifrt.Cover("first-rejected")
		return
	}
	n1 := len(h.Env.FTF.Mints)
	if n1 == 1 {
		verifrt.Cover("first-minted")
	}
	_, e2 := h.S.ReceiveMessage(ctx, &types.MsgReceiveMessage{From: f2.Str, Message: append([]byte{}, m...), Attestation: append([]byte{}, a...)})
	verifrt.Assert("C04/sequence/replayed-burn-message-mints-nothing", verifrt.Any(e2 != nil, len(h.Env.FTF.Mints) == n1))
}

// pausing then unpausing restores the previous behaviour of SendMessage
func Harness_C12_PauseThenUnpauseRestoresSending() {
	h := newH("")
	c := producerCaps()
	c.body = 2
	h.setupUserState(1, c)
	ctx := h.Env.Ctx
	verifrt.Assume(!h.SendPaused)
	pauser := h.Role[slotPauser]
	_, p1 := h.S.PauseSendingAndReceivingMessages(ctx, &types.MsgPauseSendingAndReceivingMessages{From: pauser})
	_, p2 := h.S.PauseSendingAndReceivingMessages(ctx, &types.MsgPauseSendingAndReceivingMessages{From: pauser})
	verifrt.Assert("C12/sequence/pausing-is-idempotent", verifrt.All(p1 == nil, p2 == nil))
	okPaused, _, _ := h.callUser(hSendMessage, c)
	verifrt.Assert("C12/sequence/no-send-while-paused", !okPaused)
	h.K.SetNextAvailableNonce(ctx, types.Nonce{Nonce: h.NextNonce}) // what the SDK's rollback of the failed send does
	_, u1 := h.S.UnpauseSendingAndReceivingMessages(ctx, &types.MsgUnpauseSendingAndReceivingMessages{From: pauser})
	verifrt.Assert("C12/sequence/unpause-succeeds", u1 == nil)
	okAfter, _, m := h.callUser(hSendMessage, c)
	specNow := verifrt.All(m.From.Valid, uint64(len(m.Body)) <= h.MaxBody, len(m.Recipient) == 32, !verifrt.IsZero(m.Recipient))
	verifrt.Cover("ran")
	verifrt.Assert("C12/sequence/unpausing-restores-sending", okAfter == specNow)
}
