package keeper

import "github.com/circlefin/noble-cctp/x/cctp/verifrt"

func init() {
	verifrt.Register("Harness_C14_Receive", Harness_C14_Receive)
}

// one symbolic ReceiveMessage from an arbitrary invariant-satisfying state (see receive.go)
func Harness_C14_Receive() { receiveLemma("C14", false) }
