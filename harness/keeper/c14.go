package keeper

import "github.com/circlefin/noble-cctp/x/cctp/verifrt"

func init() {
	verifrt.Register("Harness_C14_Receive", Harness_C14_Receive)
	verifrt.Register("Harness_C14_ReceiveWithEventFaults", Harness_C14_ReceiveWithEventFaults)
}

// the same with every event emission allowed to fail
func Harness_C14_ReceiveWithEventFaults() { receiveLemma("C14", true) }

// one symbolic ReceiveMessage from an arbitrary invariant-satisfying state (see receive.go)
func Harness_C14_Receive() { receiveLemma("C14", false) }
