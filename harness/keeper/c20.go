package keeper

// C20: no input crashes a handler or a query. Every field of every request is arbitrary: absent
// (nil) amounts, absent or over-long byte fields, non-ASCII strings, malformed addresses; the state
// is any invariant-satisfying state. A Go panic anywhere below the handler is the violation.

import (
	"github.com/circlefin/noble-cctp/x/cctp/types"
	"github.com/circlefin/noble-cctp/x/cctp/verifrt"
	"github.com/cosmos/cosmos-sdk/types/query"
)

func init() {
	verifrt.Register("Harness_C20_Queries", Harness_C20_Queries)
}

func c20handler(idx int) {
	h := newH("")
	h.wild = true
	var panicked bool
	if idx < numPrivileged {
		h.setupAdminState(2)
		_, panicked = h.callAdmin(idx, nondetSubmitter())
	} else {
		c := smallCaps()
		c.denom = 6
		if (idx == hReceiveMessage || idx == hReplaceMessage || idx == hReplaceDepositForBurn) && verifrt.Tier() == 1 {
			h.setupUserState(maxSigs, c)
		} else {
			// quick tier: one attester; the attestation may still hold up to two signatures' worth of bytes
			h.setupUserState(1, c)
		}
		h.assumeThresholdInvariant()
		var m *userMsg
		_, panicked, m = h.callUser(idx, c)
		if idx == hReceiveMessage || idx == hReplaceMessage || idx == hReplaceDepositForBurn {
			verifrt.ProbeAttestation("m_message", "m_attestation", "att", m.Message, m.Attestation, h.Att, maxSigs)
		}
	}
	verifrt.Cover("returned")
	verifrt.Assert("C20/handler/no-panic", !panicked)
}

// reverseWithKey is set when the last wildPage() asked for reverse iteration from a key (reported
// under its own assertion label, see known_findings.txt)
var reverseWithKey bool

func wildPage() *query.PageRequest {
	reverseWithKey = false
	if verifrt.NondetBool("q_page_nil") {
		return nil
	}
	if verifrt.NondetBool("q_reverse_with_key") {
		reverseWithKey = true
		k := verifrt.NondetBytes("q_key", 4)
		verifrt.Assume(len(k) > 0)
		return &query.PageRequest{Key: k, Limit: verifrt.NondetU64("q_limit"), CountTotal: verifrt.NondetBool("q_count"), Reverse: true}
	}
	rev := verifrt.NondetBool("q_reverse")
	k := verifrt.NondetBytesOrNil("q_key", 4)
	verifrt.Assume(verifrt.Implies(rev, len(k) == 0))
	return &query.PageRequest{Key: k, Offset: verifrt.NondetU64("q_offset"), Limit: verifrt.NondetU64("q_limit"),
		CountTotal: verifrt.NondetBool("q_count"), Reverse: rev}
}

func wildPageOLD() *query.PageRequest {
	return &query.PageRequest{Key: verifrt.NondetBytesOrNil("q_key", 4), Offset: verifrt.NondetU64("q_offset"), Limit: verifrt.NondetU64("q_limit"),
		CountTotal: verifrt.NondetBool("q_count"), Reverse: verifrt.NondetBool("q_reverse")}
}

func Harness_C20_Queries() {
	h := newH("")
	h.wild = true
	h.setupAdminState(2)
	ctx := h.Env.Ctx
	reverseWithKey = false
	which := verifrt.NondetChoice("which", 19)
	nilReq := verifrt.NondetBool("nil_request")
	panicked := verifrt.Catch(func() {
		switch which {
		case 0:
			var r *types.QueryRolesRequest
			if !nilReq {
				r = &types.QueryRolesRequest{}
			}
			h.K.Roles(ctx, r)
		case 1:
			var r *types.QueryGetAttesterRequest
			if !nilReq {
				r = &types.QueryGetAttesterRequest{Attester: verifrt.NondetString("q_attester", 4)}
			}
			h.K.Attester(ctx, r)
		case 2:
			var r *types.QueryAllAttestersRequest
			if !nilReq {
				r = &types.QueryAllAttestersRequest{Pagination: wildPage()}
			}
			h.K.Attesters(ctx, r)
		case 3:
			var r *types.QueryGetPerMessageBurnLimitRequest
			if !nilReq {
				r = &types.QueryGetPerMessageBurnLimitRequest{Denom: verifrt.NondetString("q_denom", 6)}
			}
			h.K.PerMessageBurnLimit(ctx, r)
		case 4:
			var r *types.QueryAllPerMessageBurnLimitsRequest
			if !nilReq {
				r = &types.QueryAllPerMessageBurnLimitsRequest{Pagination: wildPage()}
			}
			h.K.PerMessageBurnLimits(ctx, r)
		case 5:
			var r *types.QueryGetBurningAndMintingPausedRequest
			if !nilReq {
				r = &types.QueryGetBurningAndMintingPausedRequest{}
			}
			h.K.BurningAndMintingPaused(ctx, r)
		case 6:
			var r *types.QueryGetSendingAndReceivingMessagesPausedRequest
			if !nilReq {
				r = &types.QueryGetSendingAndReceivingMessagesPausedRequest{}
			}
			h.K.SendingAndReceivingMessagesPaused(ctx, r)
		case 7:
			var r *types.QueryGetMaxMessageBodySizeRequest
			if !nilReq {
				r = &types.QueryGetMaxMessageBodySizeRequest{}
			}
			h.K.MaxMessageBodySize(ctx, r)
		case 8:
			var r *types.QueryGetNextAvailableNonceRequest
			if !nilReq {
				r = &types.QueryGetNextAvailableNonceRequest{}
			}
			h.K.NextAvailableNonce(ctx, r)
		case 9:
			var r *types.QueryGetSignatureThresholdRequest
			if !nilReq {
				r = &types.QueryGetSignatureThresholdRequest{}
			}
			h.K.SignatureThreshold(ctx, r)
		case 10:
			var r *types.QueryGetTokenPairRequest
			if !nilReq {
				r = &types.QueryGetTokenPairRequest{RemoteDomain: verifrt.NondetU32("q_domain"), RemoteToken: verifrt.NondetString("q_token", 6)}
			}
			h.K.TokenPair(ctx, r)
		case 11:
			var r *types.QueryAllTokenPairsRequest
			if !nilReq {
				r = &types.QueryAllTokenPairsRequest{Pagination: wildPage()}
			}
			h.K.TokenPairs(ctx, r)
		case 12:
			var r *types.QueryGetUsedNonceRequest
			if !nilReq {
				r = &types.QueryGetUsedNonceRequest{SourceDomain: verifrt.NondetU32("q_domain"), Nonce: verifrt.NondetU64("q_nonce")}
			}
			h.K.UsedNonce(ctx, r)
		case 13:
			var r *types.QueryAllUsedNoncesRequest
			if !nilReq {
				r = &types.QueryAllUsedNoncesRequest{Pagination: wildPage()}
			}
			h.K.UsedNonces(ctx, r)
		case 14:
			var r *types.QueryRemoteTokenMessengerRequest
			if !nilReq {
				r = &types.QueryRemoteTokenMessengerRequest{DomainId: verifrt.NondetU32("q_domain")}
			}
			h.K.RemoteTokenMessenger(ctx, r)
		case 15:
			var r *types.QueryRemoteTokenMessengersRequest
			if !nilReq {
				r = &types.QueryRemoteTokenMessengersRequest{Pagination: wildPage()}
			}
			h.K.RemoteTokenMessengers(ctx, r)
		case 16:
			h.K.LocalDomain(ctx, nil)
		case 17:
			h.K.LocalMessageVersion(ctx, nil)
		case 18:
			h.K.BurnMessageVersion(ctx, nil)
		}
	})
	verifrt.Cover("queried")
	names := []string{"Roles", "Attester", "Attesters", "PerMessageBurnLimit", "PerMessageBurnLimits", "BurningAndMintingPaused",
		"SendingAndReceivingMessagesPaused", "MaxMessageBodySize", "NextAvailableNonce", "SignatureThreshold", "TokenPair", "TokenPairs",
		"UsedNonce", "UsedNonces", "RemoteTokenMessenger", "RemoteTokenMessengers", "LocalDomain", "LocalMessageVersion", "BurnMessageVersion"}
	label := "C20/query/no-panic/" + names[which]
	if reverseWithKey {
		label += "/reverse-from-key"
	}
	verifrt.Assert(label, !panicked)
}
