package keeper

import "github.com/circlefin/noble-cctp/x/cctp/verifrt"

func init() {
	verifrt.Register("Harness_C12_Receive", Harness_C12_Receive)
}

// one symbolic ReceiveMessage from an arbitrary invariant-satisfying state (see receive.go)
func Harness_C12_Receive() { receiveLemma("C12", false) }
