package keeper

import "github.com/circlefin/noble-cctp/x/cctp/verifrt"

func init() {
	verifrt.Register("Harness_C12_Receive", Harness_C12_Receive)
}

// one symbolic ReceiveMessage from an arbitrary invariant-satisfying state (see receive.go)
func Harness_C12_Receive() { receiveLemma("C12", false) }

// the pause obligations of a receive keep holding on a fresh keeper instance after a different instance
// successfully executed transaction `before` in the same process (nothing the pause decision reads is
// package-level memory another transaction can have changed)
func c12receiveAfter(before int) { receiveLemmaN("C12", false, 1, before) }
