package keeper

import "github.com/circlefin/noble-cctp/x/cctp/verifrt"

func init() {
	verifrt.Register("Harness_C03_Receive", Harness_C03_Receive)
	verifrt.Register("Harness_C03_VerdictFollowsTheCurrentAttesterSet", Harness_C03_VerdictFollowsTheCurrentAttesterSet)
}

// "the attestation is valid" means valid under the attesters enabled now: a signature by an attester
// that is not in the set is refused even after the same signature was accepted against a set that
// contained it (replayable special case of the interference lemma, see c18.go)
func Harness_C03_VerdictFollowsTheCurrentAttesterSet() {
	verdictNotRetained("C03/verifier/verdict-follows-the-current-attester-set")
}

// one symbolic ReceiveMessage from an arbitrary invariant-satisfying state (see receive.go)
func Harness_C03_Receive() { receiveLemma("C03", false) }
