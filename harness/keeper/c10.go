package keeper

// C10: privileged actions require the matching role.
// Five role slots hold five arbitrary strings (they may coincide or differ, the pending slot may be
// empty), the submitter is an arbitrary string: a privileged transaction succeeds only if the
// submitter equals the current holder of the slot the specification table names for it.

import "github.com/circlefin/noble-cctp/x/cctp/verifrt"

func c10(idx int) {
	h := newH("")
	h.setupAdminState(2)
	from := nondetSubmitter()
	h.Env.BeginTx()
	ok, _ := h.callAdmin(idx, from)
	slot := specSlot(idx)
	authorised := from == h.Role[slot]
	if slot == slotPending {
		authorised = verifrt.All(h.PendingSet, authorised)
	}
	verifrt.Assert("C10/authorised", verifrt.Implies(ok, authorised))
	if ok {
		verifrt.Cover("accepted")
	} else {
		verifrt.Cover("rejected")
	}
}
