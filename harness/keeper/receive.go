package keeper

// ReceiveMessage: one symbolic transaction from an arbitrary invariant-satisfying state, with the
// obligations of C02 (consumed once), C03 (accepted iff every condition holds), C04 (mints exactly
// what the burn message says), C12 (pause matrix), C14 (all-or-nothing) and C15 (write set).

import (
	"bytes"

	"github.com/circlefin/noble-cctp/x/cctp/types"
	"github.com/circlefin/noble-cctp/x/cctp/verifrt"
	fiattokenfactorytypes "github.com/circlefin/noble-fiattokenfactory/x/fiattokenfactory/types"
)

func receiveCaps() userCaps {
	c := smallCaps()
	if verifrt.Tier() == 1 {
		c.msg = 116 + 261
	}
	return c
}

// receiveLemma runs one symbolic ReceiveMessage and asserts the obligations of property p
// ("" = all). eventsMayFail additionally lets every event emission fail (C14).
// quick tier: the lemmas whose subject is the attestation itself (C01, C03) use two attesters and two
// signatures, the others one of each; thorough tier: two everywhere.
func lemmaSigs(p string) int {
	if verifrt.Tier() == 1 || p == "C01" || p == "C03" || p == "C09" {
		return maxSigs
	}
	return 1
}

func receiveLemma(p string, eventsMayFail bool) { receiveLemmaN(p, eventsMayFail, lemmaSigs(p), -1) }

// receiveLemmaN: sigs bounds attesters and signatures; before >= 0 first lets a DIFFERENT keeper
// instance successfully execute transaction `before` on an arbitrary other state in the same process.
func receiveLemmaN(p string, eventsMayFail bool, sigs int, before int) {
	receiveLemmaFull(p, eventsMayFail, sigs, before, nil)
}

// receiveLemmaFull: pre as in producerLemmaFull.
func receiveLemmaFull(p string, eventsMayFail bool, sigs int, before int, pre func(h *H)) {
	if before >= 0 {
		a := c18exec(before, "other_", "other_")
		verifrt.Assume(a.ok)
		verifrt.Cover("C18/other-instance-ran-first")
	}
	h := newH("")
	c := receiveCaps()
	if sigs == 1 {
		c.att = 66
	}
	h.setupUserState(sigs, c)
	h.assumeThresholdInvariant()
	verifrt.Assume(asciiStr(h.PairLocal))
	if pre != nil {
		pre(h)
	}
	h.Env.EventsMayFail(eventsMayFail)
	h.Env.FTF.MayPanic = p == "C14" // a failing mint may return an error or panic
	h.Env.BeginTx()
	ok, panicked, m := h.callUser(hReceiveMessage, c)
	verifrt.ProbeAttestation("m_message", "m_attestation", "att", m.Message, m.Attestation, h.Att, sigs)

	// ---- specification, from the reference decoder ----
	r := refDecode(m.Message)
	b := refDecodeBurn(m.Message)
	attOK := refAttestationValid(m.Message, m.Attestation, h.Att, h.Threshold, sigs)
	used := verifrt.All(h.UsedSet, h.UsedDomain == r.Src, h.UsedNonce == r.Nonce)
	callerOK := verifrt.Any(verifrt.IsZero(r.Caller), m.From.Str == verifrt.AddrOf(r.Caller[12:32]))
	toModule := bytes.Equal(r.Recipient, modulePadded())
	header := verifrt.All(!h.SendPaused, attOK, r.LongEnough, r.Dst == 4, r.Version == 0, !used, callerOK)
	pairFound := verifrt.All(h.PairSet, h.PairDomain == r.Src, bytes.Equal(h.PairToken, b.Token))
	msgrOK := verifrt.All(h.MsgrSet, h.MsgrDomain == r.Src, bytes.Equal(h.MsgrAddr, r.Sender))
	burnConds := verifrt.All(!h.BurnPaused, r.BodyLen == 132, b.Version == 0, msgrOK, pairFound)
	nMints := len(h.Env.FTF.Mints)
	mintFailed := false
	for i := 0; i < nMints; i++ {
		mintFailed = verifrt.Any(mintFailed, h.Env.FTF.MintErrs[i] != nil)
	}
	spec := verifrt.All(header, verifrt.Implies(toModule, burnConds))
	evs := h.Env.Events()
	ws := h.Env.Writes()

	if ok {
		verifrt.Cover("receive/accepted")
	} else {
		verifrt.Cover("receive/rejected")
	}

	if p == "C03" || p == "" {
		// accepted only if every condition holds (and, for module messages, the one mint succeeded)
		verifrt.Assert("C03/receive/accept-implies-conditions", verifrt.Implies(ok, verifrt.All(spec, !mintFailed, verifrt.Implies(toModule, nMints == 1))))
		// every condition holds => accepted, unless the mint (or an event emission) failed
		verifrt.Assert("C03/receive/conditions-imply-accept", verifrt.Implies(verifrt.All(spec, !eventsMayFail), verifrt.Any(ok, mintFailed)))
		verifrt.Assert("C03/receive/no-panic", !panicked)
	}
	if p == "C01" {
		verifrt.Assert("C01/receive/accept-implies-valid-attestation", verifrt.Implies(ok, attOK))
		verifrt.Assert("C01/receive/valid-attestation-not-rejected-by-verifier", verifrt.Implies(verifrt.All(spec, !eventsMayFail), verifrt.Any(ok, mintFailed)))
	}
	if p == "C12" || p == "" {
		verifrt.Assert("C12/receive/paused-blocks", verifrt.Implies(h.SendPaused, !ok))
		verifrt.Assert("C12/receive/burn-pause-blocks-mint", verifrt.Implies(verifrt.All(h.BurnPaused, ok), nMints == 0))
		verifrt.Assert("C12/receive/burn-pause-allows-plain", verifrt.Implies(verifrt.All(header, !toModule, !eventsMayFail), ok))
	}
	if p == "C02" || p == "" {
		own := h.usedKey(r.Src, r.Nonce)
		verifrt.Assert("C02/receive/accept-implies-unused-before", verifrt.Implies(ok, !used))
		// the entry the module's own reader consults for this pair is written (with a present value)
		marked := false
		for i := range ws {
			marked = verifrt.Any(marked, verifrt.All(bytes.Equal(ws[i].Key, own), !ws[i].Delete))
		}
		verifrt.Assert("C02/receive/accept-marks-used", verifrt.Implies(ok, marked))
		// a second arbitrary pair: nothing its reader consults is written unless it is this message's pair
		d2, n2 := verifrt.NondetU32("other_domain"), verifrt.NondetU64("other_nonce")
		verifrt.Assert("C02/receive/marks-only-its-own-pair", verifrt.Implies(verifrt.All(ok, wrote(ws, h.usedKey(d2, n2))), verifrt.All(d2 == r.Src, n2 == r.Nonce)))
		deleted := false
		for i := range ws {
			deleted = verifrt.Any(deleted, ws[i].Delete)
		}
		verifrt.Assert("C02/receive/used-stays-used", verifrt.Implies(ok, !deleted))
	}
	if p == "C04" || p == "" {
		if ok {
			isMod := toModule
			verifrt.Assert("C04/receive/mint-count", nMints == verifrt.IteInt(isMod, 1, 0))
			if nMints == 1 {
				mm := h.Env.FTF.Mints[0]
				verifrt.Assert("C04/receive/mint-args", verifrt.All(
					mm.From == verifrt.AddrOf(verifrt.ModuleAddr("cctp")),
					mm.Address == verifrt.AddrOf(b.Recipient[12:32]),
					verifrt.LowerEq(mm.Amount.Denom, h.PairLocal),
					verifrt.IntEq(mm.Amount.Amount, verifrt.IntFromBytes32(b.AmountBz)),
				))
				verifrt.Assert("C04/receive/event-count", len(evs) == 2)
				if len(evs) == 2 {
					e0, ok0 := evs[0].(*types.MintAndWithdraw)
					e1, ok1 := evs[1].(*types.MessageReceived)
					verifrt.Assert("C04/receive/event-types", verifrt.All(ok0, ok1))
					if ok0 && ok1 {
						verifrt.Assert("C04/receive/mint-event", verifrt.All(
							bytes.Equal(e0.MintRecipient, b.Recipient),
							verifrt.IntEq(e0.Amount, verifrt.IntFromBytes32(b.AmountBz)),
							verifrt.LowerEq(e0.MintToken, h.PairLocal),
						))
						verifrt.Assert("C04/receive/received-event", receivedEventOK(e1, m, r))
					}
				}
			} else if nMints == 0 {
				verifrt.Assert("C04/receive/event-count-plain", len(evs) == 1)
				if len(evs) == 1 {
					e1, ok1 := evs[0].(*types.MessageReceived)
					verifrt.Assert("C04/receive/event-type-plain", ok1)
					if ok1 {
						verifrt.Assert("C04/receive/received-event-plain", receivedEventOK(e1, m, r))
					}
				}
			}
		}
	}
	if p == "C14" || p == "" {
		verifrt.Assert("C14/receive/mint-failure-implies-error", verifrt.Implies(mintFailed, !ok))
		verifrt.Assert("C14/receive/success-needs-mint", verifrt.Implies(verifrt.All(ok, toModule), verifrt.All(nMints == 1, !mintFailed, h.Env.Marked("mint_0"))))
		if eventsMayFail {
			verifrt.Assert("C14/receive/event-failure-implies-error", verifrt.Implies(h.Env.EventFailures() > 0, !ok))
		}
	}
	if p == "C15" || p == "" {
		verifrt.Assert("C15/receive/write-set", verifrt.Implies(ok, onlyWrote(ws, h.usedKey(r.Src, r.Nonce))))
	}
	_ = fiattokenfactorytypes.MsgMint{}
}

func receivedEventOK(e *types.MessageReceived, m *userMsg, r refMsg) bool {
	return verifrt.All(
		e.Caller == m.From.Str,
		e.SourceDomain == r.Src,
		e.Nonce == r.Nonce,
		bytes.Equal(e.Sender, r.Sender),
		len(e.MessageBody) == r.BodyLen,
		bytes.Equal(e.MessageBody, verifrt.Tail(m.Message, 116)),
	)
}
