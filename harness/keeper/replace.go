package keeper

// ReplaceMessage and ReplaceDepositForBurn: one symbolic transaction from an arbitrary
// invariant-satisfying state, with the obligations of C09 (only the submitter's own attested
// message; what is kept and what changes), C05 (module-sender messages), C06 (content), C07 (no
// nonce consumed), C12 (pauses) and C15 (writes nothing).

import (
	"bytes"

	"github.com/circlefin/noble-cctp/x/cctp/types"
	"github.com/circlefin/noble-cctp/x/cctp/verifrt"
)

func replaceCaps() userCaps {
	c := smallCaps()
	c.body = 8
	if verifrt.Tier() == 1 {
		c.body = 140
	}
	return c
}

func replaceLemma(idx int, p string) {
	h := newH("")
	c := replaceCaps()
	sigs := lemmaSigs(p)
	if sigs == 1 {
		c.att = 66
	}
	h.setupUserState(sigs, c)
	h.assumeThresholdInvariant()
	h.Env.BeginTx()
	ok, panicked, m := h.callUser(idx, c)
	ctx := h.Env.Ctx
	verifrt.ProbeAttestation("m_message", "m_attestation", "att", m.Message, m.Attestation, h.Att, sigs)
	isDeposit := idx == hReplaceDepositForBurn

	r := refDecode(m.Message)
	b := refDecodeBurn(m.Message)
	attOK := refAttestationValid(m.Message, m.Attestation, h.Att, h.Threshold, sigs)
	evs := h.Env.Events()
	ws := h.Env.Writes()
	fromPadded := verifrt.Pad32(m.From.Bytes)

	var pre bool
	if !isDeposit {
		pre = verifrt.All(!h.SendPaused, attOK, r.LongEnough, r.Src == 4, m.From.Valid, bytes.Equal(r.Sender, fromPadded))
	} else {
		pre = verifrt.All(!h.SendPaused, !h.BurnPaused, attOK, r.LongEnough, r.BodyLen == 132, r.Src == 4, m.From.Valid,
			bytes.Equal(r.Sender, modulePadded()), bytes.Equal(b.Sender, fromPadded),
			len(m.Recipient) == 32, !verifrt.IsZero(m.Recipient))
	}
	if ok {
		verifrt.Cover("replace/accepted")
	} else {
		verifrt.Cover("replace/rejected")
	}
	if p == "C09" {
		verifrt.Assert("C09/replace/accept-implies-own-attested-message", verifrt.Implies(ok, pre))
		verifrt.Assert("C09/replace/no-panic", !panicked)
		verifrt.Assert("C09/replace/moves-no-funds", verifrt.All(len(h.Env.Bank.Calls) == 0, len(h.Env.FTF.Burns) == 0, len(h.Env.FTF.Mints) == 0))
		verifrt.Assert("C09/replace/writes-nothing", verifrt.Implies(ok, len(ws) == 0))
	}
	if p == "C01" {
		verifrt.Assert("C01/replace/accept-implies-valid-attestation", verifrt.Implies(ok, attOK))
	}
	if p == "C12" {
		verifrt.Assert("C12/replace/send-pause-blocks", verifrt.Implies(h.SendPaused, !ok))
		if isDeposit {
			verifrt.Assert("C12/replace/burn-pause-blocks-deposit-replacement", verifrt.Implies(h.BurnPaused, !ok))
		}
	}
	if p == "C15" {
		verifrt.Assert("C15/replace/write-set", verifrt.Implies(ok, len(ws) == 0))
	}
	if p == "C07" {
		after, found := h.K.GetNextAvailableNonce(ctx)
		verifrt.Assert("C07/replace/counter-unchanged", verifrt.Implies(ok, verifrt.All(found, after.Nonce == h.NextNonce)))
	}
	if !ok {
		return
	}
	wantEvents := 1
	if isDeposit {
		wantEvents = 2
	}
	if p == "C09" || p == "C06" || p == "C05" || p == "C07" {
		verifrt.Assert(p+"/replace/event-count", len(evs) == wantEvents)
		if len(evs) != wantEvents {
			return
		}
		sent, isSent := evs[0].(*types.MessageSent)
		verifrt.Assert(p+"/replace/first-event-is-message-sent", isSent)
		if !isSent {
			return
		}
		out := refDecode(sent.Message)
		if p == "C07" {
			verifrt.Assert("C07/replace/keeps-original-nonce", out.Nonce == r.Nonce)
		}
		if p == "C05" {
			// a module-sender message leaves a replacement only if the original was one
			verifrt.Assert("C05/replace/sender-is-original-sender", bytes.Equal(out.Sender, r.Sender))
			if !isDeposit {
				verifrt.Assert("C05/replace/sender-is-submitter", bytes.Equal(out.Sender, fromPadded))
			} else {
				// the replacement of a burn message states the amount that was burnt, for the same depositor
				ob := refDecodeBurn(sent.Message)
				verifrt.Assert("C05/replace/keeps-burn-amount-and-depositor", verifrt.All(
					len(sent.Message) == 116+132,
					bytes.Equal(ob.AmountBz, b.AmountBz), bytes.Equal(ob.Sender, b.Sender), bytes.Equal(ob.Token, b.Token)))
			}
		}
		if p == "C09" || p == "C06" {
			var body []byte
			if isDeposit {
				body = refEncodeBurn(b.Version, b.Token, m.Recipient, b.AmountBz, b.Sender)
			} else {
				body = m.Body
			}
			exp := refEncodeMsg(0, 4, r.Dst, r.Nonce, r.Sender, r.Recipient, m.Caller, body)
			verifrt.Assert(p+"/replace/requested-fields-fit-the-layout", verifrt.All(len(m.Caller) == 32, verifrt.Implies(isDeposit, len(m.Recipient) == 32)))
			verifrt.Assert(p+"/replace/message-bytes", bytes.Equal(sent.Message, exp))
			// the sender of a replacement is the submitter, or the module for a deposit replacement
			if isDeposit {
				verifrt.Assert(p+"/replace/sender-is-module-for-deposits", bytes.Equal(out.Sender, modulePadded()))
			} else {
				verifrt.Assert(p+"/replace/sender-is-submitter", bytes.Equal(out.Sender, fromPadded))
			}
			if isDeposit {
				dep, isDep := evs[1].(*types.DepositForBurn)
				verifrt.Assert(p+"/replace/second-event-is-deposit-for-burn", isDep)
				if isDep {
					verifrt.Assert(p+"/replace/deposit-event-fields", verifrt.All(
						dep.Nonce == r.Nonce,
						verifrt.IntEq(dep.Amount, verifrt.IntFromBytes32(b.AmountBz)),
						dep.Depositor == m.From.Str,
						bytes.Equal(dep.MintRecipient, m.Recipient),
						dep.DestinationDomain == r.Dst,
						bytes.Equal(dep.DestinationTokenMessenger, r.Recipient),
						bytes.Equal(dep.DestinationCaller, m.Caller),
					))
				}
			}
		}
	}
}
