package keeper

// Reference specifications written from the CCTP layout tables and the property statements
// (DESIGN.md appendix A), with literal offsets and fork-free byte access.

import (
	"bytes"

	"github.com/circlefin/noble-cctp/x/cctp/verifrt"
)

// refMsg is a CCTP message decoded by the reference layout (header 116 bytes).
type refMsg struct {
	LongEnough bool
	Version    uint32
	Src        uint32
	Dst        uint32
	Nonce      uint64
	Sender     []byte // 32
	Recipient  []byte // 32
	Caller     []byte // 32
	BodyLen    int    // len(msg)-116 when LongEnough
	Hdr        []byte // first 116 bytes, zero padded
}

func refDecode(msg []byte) refMsg {
	hdr := verifrt.SubBytes(msg, 0, 116)
	return refMsg{
		LongEnough: len(msg) >= 116,
		Version:    verifrt.RefU32(hdr, 0),
		Src:        verifrt.RefU32(hdr, 4),
		Dst:        verifrt.RefU32(hdr, 8),
		Nonce:      verifrt.RefU64(hdr, 12),
		Sender:     hdr[20:52],
		Recipient:  hdr[52:84],
		Caller:     hdr[84:116],
		BodyLen:    len(msg) - 116,
		Hdr:        hdr,
	}
}

// refBurn is a burn message body decoded by the reference layout (exactly 132 bytes).
type refBurn struct {
	Version   uint32
	Token     []byte // 32
	Recipient []byte // 32
	AmountBz  []byte // 32, big-endian
	Sender    []byte // 32
}

// refDecodeBurn decodes the 132 bytes following the header (zero padded when shorter).
func refDecodeBurn(msg []byte) refBurn {
	b := verifrt.SubBytes(msg, 116, 132)
	return refBurn{
		Version:   verifrt.RefU32(b, 0),
		Token:     b[4:36],
		Recipient: b[36:68],
		AmountBz:  b[68:100],
		Sender:    b[100:132],
	}
}

const maxSigs = 2

// refAttestationValid is the attestation rule of C01: exactly t 65-byte signatures over
// keccak256(message), each recoverable (after mapping a trailing 27/28 to 0/1) to the key of an
// enabled attester, signer addresses strictly increasing. Evaluated without forks for t <= maxT.
func refAttestationValid(msg, att []byte, attesters []string, t uint32, maxT int) bool {
	digest := verifrt.Keccak(msg)
	ok := verifrt.All(t != 0, t <= uint32(maxT), uint64(len(att)) == 65*uint64(t))
	var prev []byte
	for i := 0; i < maxT; i++ {
		sig := verifrt.SubBytes(att, 65*i, 65)
		v := sig[64]
		sig[64] = verifrt.Ite8(verifrt.Any(v == 27, v == 28), v-27, v)
		key, rok := verifrt.Recover(digest, sig)
		member := false
		for _, a := range attesters {
			member = verifrt.Any(member, bytes.Equal(verifrt.FromHex(a), key))
		}
		addr := verifrt.EthAddr(key)
		ordered := true
		if i > 0 {
			ordered = verifrt.BytesLess(prev, addr)
		}
		ok = verifrt.All(ok, verifrt.Implies(uint32(i) < t, verifrt.All(rok, member, ordered)))
		prev = addr
	}
	return ok
}

func modulePadded() []byte { return verifrt.Pad32(verifrt.ModuleAddr("cctp")) }
