package keeper

// Shared harness infrastructure: symbolic pre-state construction through the module's real setters,
// one dispatcher for the 25 transaction handlers with fully symbolic messages, and observational
// naming of store entries (the key the module's own reader looks at).

import (
	"bytes"

	"cosmossdk.io/math"
	"github.com/circlefin/noble-cctp/x/cctp/types"
	"github.com/circlefin/noble-cctp/x/cctp/verifrt"
)

// handler indices
const (
	hUpdateOwner = iota
	hUpdateAttesterManager
	hUpdatePauser
	hUpdateTokenController
	hAcceptOwner
	hEnableAttester
	hDisableAttester
	hUpdateSignatureThreshold
	hPauseBurningAndMinting
	hUnpauseBurningAndMinting
	hPauseSendingAndReceivingMessages
	hUnpauseSendingAndReceivingMessages
	hUpdateMaxMessageBodySize
	hSetMaxBurnAmountPerMessage
	hLinkTokenPair
	hUnlinkTokenPair
	hAddRemoteTokenMessenger
	hRemoveRemoteTokenMessenger
	hDepositForBurn
	hDepositForBurnWithCaller
	hSendMessage
	hSendMessageWithCaller
	hReplaceMessage
	hReplaceDepositForBurn
	hReceiveMessage
	numHandlers
)

const numPrivileged = hDepositForBurn

// role slots (specification table A.1)
const (
	slotOwner = iota
	slotPending
	slotAttesterManager
	slotPauser
	slotTokenController
	slotNone
)

// specSlot is written from the property statement (DESIGN.md A.1), not from the handlers.
func specSlot(h int) int {
	switch h {
	case hUpdateOwner, hUpdateAttesterManager, hUpdatePauser, hUpdateTokenController, hUpdateMaxMessageBodySize,
		hAddRemoteTokenMessenger, hRemoveRemoteTokenMessenger:
		return slotOwner
	case hAcceptOwner:
		return slotPending
	case hEnableAttester, hDisableAttester, hUpdateSignatureThreshold:
		return slotAttesterManager
	case hPauseBurningAndMinting, hUnpauseBurningAndMinting, hPauseSendingAndReceivingMessages, hUnpauseSendingAndReceivingMessages:
		return slotPauser
	case hLinkTokenPair, hUnlinkTokenPair, hSetMaxBurnAmountPerMessage:
		return slotTokenController
	}
	return slotNone
}

// H is one symbolic chain state plus the keeper under test.
type H struct {
	Env  *verifrt.Env
	K    *Keeper
	S    msgServer
	sfx  string // suffix for nondet names that must differ between two states
	wild bool   // C20: no input-shape assumptions (non-ASCII strings, absent amounts)

	LastErr error // error returned by the last callAdmin / callUser (nil if it panicked)

	Role       [5]string // by slot; Role[slotPending] valid iff PendingSet
	PendingSet bool

	BurnPaused, SendPaused bool
	MaxBody                uint64
	NextNonce              uint64
	Threshold              uint32

	Att []string // enabled attesters (distinct, ascending)

	PairSet    bool
	PairDomain uint32
	PairToken  []byte
	PairLocal  string

	MsgrSet    bool
	MsgrDomain uint32
	MsgrAddr   []byte

	LimitSet    bool
	LimitDenom  string
	LimitAmount math.Int

	UsedSet    bool
	UsedDomain uint32
	UsedNonce  uint64

	// last message fields (filled by call)
	M msgFields
}

type msgFields struct {
	From      string
	NewRole   verifrt.Addr
	Attester  string
	Amount32  uint32
	Size      uint64
	Domain    uint32
	Token     []byte
	Local     string
	Address   []byte
	RespNonce uint64
	HasResp   bool
	Limit     math.Int // requested burn limit
}

func newH(sfx string) *H {
	h := &H{sfx: sfx}
	h.Env = verifrt.NewEnv()
	h.K = NewKeeper(h.Env.Cdc, h.Env.Log, h.Env.StoreService, h.Env.Bank, h.Env.FTF)
	h.S = msgServer{Keeper: h.K}
	return h
}

const roleCap = 6

func asciiStr(s string) bool { return verifrt.IsASCII(s) }

// shape is an input-shape assumption, dropped in wild mode (C20).
func (h *H) shape(b bool) {
	if !h.wild {
		verifrt.Assume(b)
	}
}

func (h *H) amount(name string) math.Int {
	if h.wild {
		return verifrt.NondetInt(name)
	}
	return verifrt.NondetIntNonNil(name)
}

// setupRoles stores four arbitrary role strings and an optional pending owner (RI R1).
func (h *H) setupRoles() {
	ctx := h.Env.Ctx
	h.Role[slotOwner], _ = verifrt.NondetAddrStr("owner")
	h.Role[slotAttesterManager], _ = verifrt.NondetAddrStr("attmgr")
	h.Role[slotPauser], _ = verifrt.NondetAddrStr("pauser")
	h.Role[slotTokenController], _ = verifrt.NondetAddrStr("tokctl")
	h.K.SetOwner(ctx, h.Role[slotOwner])
	h.K.SetAttesterManager(ctx, h.Role[slotAttesterManager])
	h.K.SetPauser(ctx, h.Role[slotPauser])
	h.K.SetTokenController(ctx, h.Role[slotTokenController])
	h.PendingSet = verifrt.NondetBool("pending_set")
	if h.PendingSet {
		h.Role[slotPending], _ = verifrt.NondetAddrStr("pending")
		h.K.SetPendingOwner(ctx, h.Role[slotPending])
	}
}

// nondetSubmitter is an arbitrary submitter string (same universe as the role holders).
func nondetSubmitter() string {
	s, _ := verifrt.NondetAddrStr("from")
	return s
}

// setupRolesFixed is setupRoles with the pending slot always occupied (no case split); used where
// the roles are bystanders.
func (h *H) setupRolesFixed() {
	ctx := h.Env.Ctx
	h.Role[slotOwner] = verifrt.NondetString("owner", roleCap)
	h.Role[slotAttesterManager] = verifrt.NondetString("attmgr", roleCap)
	h.Role[slotPauser] = verifrt.NondetString("pauser", roleCap)
	h.Role[slotTokenController] = verifrt.NondetString("tokctl", roleCap)
	h.Role[slotPending] = verifrt.NondetString("pending", roleCap)
	h.PendingSet = true
	h.K.SetOwner(ctx, h.Role[slotOwner])
	h.K.SetAttesterManager(ctx, h.Role[slotAttesterManager])
	h.K.SetPauser(ctx, h.Role[slotPauser])
	h.K.SetTokenController(ctx, h.Role[slotTokenController])
	h.K.SetPendingOwner(ctx, h.Role[slotPending])
}

// setupScalars stores both pause flags, max body size, next nonce and threshold (RI R2).
func (h *H) setupScalars() {
	ctx := h.Env.Ctx
	h.BurnPaused = verifrt.NondetBool("burn_paused" + h.sfx)
	h.SendPaused = verifrt.NondetBool("send_paused" + h.sfx)
	h.MaxBody = verifrt.NondetU64("max_body")
	h.NextNonce = verifrt.NondetU64("next_nonce")
	h.Threshold = verifrt.NondetU32("threshold")
	h.K.SetBurningAndMintingPaused(ctx, types.BurningAndMintingPaused{Paused: h.BurnPaused})
	h.K.SetSendingAndReceivingMessagesPaused(ctx, types.SendingAndReceivingMessagesPaused{Paused: h.SendPaused})
	h.K.SetMaxMessageBodySize(ctx, types.MaxMessageBodySize{Amount: h.MaxBody})
	h.K.SetNextAvailableNonce(ctx, types.Nonce{Nonce: h.NextNonce})
	h.K.SetSignatureThreshold(ctx, types.SignatureThreshold{Amount: h.Threshold})
}

const attCap = 3

// setupAttesters enables between 1 and maxN attesters with arbitrary distinct ASCII spellings.
func (h *H) setupAttesters(maxN int) {
	ctx := h.Env.Ctx
	n := 1 + verifrt.NondetChoice("n_att", maxN)
	for i := 0; i < n; i++ {
		a := verifrt.NondetString("att"+string(rune('0'+i)), attCap)
		verifrt.Assume(asciiStr(a))
		if i > 0 {
			verifrt.Assume(h.Att[i-1] < a)
		}
		h.Att = append(h.Att, a)
		h.K.SetAttester(ctx, types.Attester{Attester: a})
	}
}

// thresholdInvariant is the C13 pre-condition 1 <= threshold <= #attesters.
func (h *H) assumeThresholdInvariant() {
	verifrt.Assume(verifrt.All(h.Threshold >= 1, h.Threshold <= uint32(len(h.Att))))
}

// setupRegistries stores one token pair, token messenger, burn limit and used nonce, each with
// arbitrary contents satisfying RI R4 (values name their own key; 32-byte tokens/addresses). The
// entries are arbitrary, so for any request the solver decides whether it names the stored entry or
// a different one; an empty registry behaves like one whose only entry is not the one named.
func (h *H) setupRegistries() {
	ctx := h.Env.Ctx
	h.PairSet = true
	if h.PairSet {
		h.PairDomain = verifrt.NondetU32("pair_domain")
		// linked through the transaction a remote token is 32 bytes; a genesis file may hold any length
		h.PairToken = verifrt.NondetBytes("pair_token", 32)
		verifrt.Assume(verifrt.Any(len(h.PairToken) == 32, len(h.PairToken) == 20))
		h.PairLocal = verifrt.NondetString("pair_local", 4)
		verifrt.Assume(asciiStr(h.PairLocal))
		h.K.SetTokenPair(ctx, types.TokenPair{RemoteDomain: h.PairDomain, RemoteToken: h.PairToken, LocalToken: h.PairLocal})
	}
	h.MsgrSet = true
	if h.MsgrSet {
		h.MsgrDomain = verifrt.NondetU32("msgr_domain")
		h.MsgrAddr = verifrt.NondetBytes("msgr_addr", 32)
		verifrt.Assume(len(h.MsgrAddr) == 32)
		h.K.SetRemoteTokenMessenger(ctx, types.RemoteTokenMessenger{DomainId: h.MsgrDomain, Address: h.MsgrAddr})
	}
	h.LimitSet = true
	if h.LimitSet {
		h.LimitDenom = verifrt.NondetString("limit_denom", 5)
		verifrt.Assume(asciiStr(h.LimitDenom))
		h.LimitAmount = verifrt.NondetIntNonNil("limit_amount")
		h.K.SetPerMessageBurnLimit(ctx, types.PerMessageBurnLimit{Denom: h.LimitDenom, Amount: h.LimitAmount})
	}
	h.UsedSet = true
	if h.UsedSet {
		h.UsedDomain = verifrt.NondetU32("used_domain")
		h.UsedNonce = verifrt.NondetU64("used_nonce")
		h.K.SetUsedNonce(ctx, types.Nonce{SourceDomain: h.UsedDomain, Nonce: h.UsedNonce})
	}
}

// setupAdminState is the pre-state used by the administrative lemmas.
func (h *H) setupAdminState(maxAtt int) {
	verifrt.ExactFromHex(true)
	h.setupRoles()
	h.setupScalars()
	h.setupAttesters(maxAtt)
	h.setupRegistries()
}

// ---------------------------------------------------------------------------------------------
// observational entry names

func (h *H) keyOf(f func()) []byte {
	ks := h.Env.KeysReadBy(f)
	if len(ks) != 1 {
		verifrt.Assert("harness/reader-reads-one-key", false)
		return nil
	}
	return ks[0]
}

func (h *H) roleKey(slot int) []byte {
	ctx := h.Env.Ctx
	switch slot {
	case slotOwner:
		return h.keyOf(func() { h.K.GetOwner(ctx) })
	case slotPending:
		return h.keyOf(func() { h.K.GetPendingOwner(ctx) })
	case slotAttesterManager:
		return h.keyOf(func() { h.K.GetAttesterManager(ctx) })
	case slotPauser:
		return h.keyOf(func() { h.K.GetPauser(ctx) })
	}
	return h.keyOf(func() { h.K.GetTokenController(ctx) })
}

func (h *H) burnFlagKey() []byte {
	return h.keyOf(func() { h.K.GetBurningAndMintingPaused(h.Env.Ctx) })
}
func (h *H) sendFlagKey() []byte {
	return h.keyOf(func() { h.K.GetSendingAndReceivingMessagesPaused(h.Env.Ctx) })
}
func (h *H) maxBodyKey() []byte { return h.keyOf(func() { h.K.GetMaxMessageBodySize(h.Env.Ctx) }) }
func (h *H) nextNonceKey() []byte {
	return h.keyOf(func() { h.K.GetNextAvailableNonce(h.Env.Ctx) })
}
func (h *H) thresholdKey() []byte { return h.keyOf(func() { h.K.GetSignatureThreshold(h.Env.Ctx) }) }
func (h *H) attesterKey(a string) []byte {
	return h.keyOf(func() { h.K.GetAttester(h.Env.Ctx, a) })
}
func (h *H) pairKey(d uint32, tok []byte) []byte {
	return h.keyOf(func() { h.K.GetTokenPair(h.Env.Ctx, d, tok) })
}
func (h *H) msgrKey(d uint32) []byte {
	return h.keyOf(func() { h.K.GetRemoteTokenMessenger(h.Env.Ctx, d) })
}
func (h *H) limitKey(denom string) []byte {
	return h.keyOf(func() { h.K.GetPerMessageBurnLimit(h.Env.Ctx, denom) })
}
func (h *H) usedKey(d uint32, n uint64) []byte {
	return h.keyOf(func() { h.K.GetUsedNonce(h.Env.Ctx, types.Nonce{SourceDomain: d, Nonce: n}) })
}

// wrote reports whether any write of the transaction touched key.
func wrote(ws []verifrt.Write, key []byte) bool {
	r := false
	for i := range ws {
		r = verifrt.Any(r, bytes.Equal(ws[i].Key, key))
	}
	return r
}

// onlyWrote reports whether every write of the transaction touched one of the given keys.
func onlyWrote(ws []verifrt.Write, keys ...[]byte) bool {
	r := true
	for i := range ws {
		in := false
		for _, k := range keys {
			in = verifrt.Any(in, bytes.Equal(ws[i].Key, k))
		}
		r = verifrt.All(r, in)
	}
	return r
}

// ---------------------------------------------------------------------------------------------
// the 18 privileged handlers with fully symbolic requests

// callAdmin submits privileged transaction idx with submitter from; ok = returned nil error.
func (h *H) callAdmin(idx int, from string) (ok bool, panicked bool) {
	ctx := h.Env.Ctx
	h.M = msgFields{From: from}
	var err error
	panicked = verifrt.Catch(func() {
		switch idx {
		case hUpdateOwner:
			h.M.NewRole.Str, h.M.NewRole.Valid = verifrt.NondetAddrStr("new_role")
			_, err = h.S.UpdateOwner(ctx, &types.MsgUpdateOwner{From: from, NewOwner: h.M.NewRole.Str})
		case hUpdateAttesterManager:
			h.M.NewRole.Str, h.M.NewRole.Valid = verifrt.NondetAddrStr("new_role")
			_, err = h.S.UpdateAttesterManager(ctx, &types.MsgUpdateAttesterManager{From: from, NewAttesterManager: h.M.NewRole.Str})
		case hUpdatePauser:
			h.M.NewRole.Str, h.M.NewRole.Valid = verifrt.NondetAddrStr("new_role")
			_, err = h.S.UpdatePauser(ctx, &types.MsgUpdatePauser{From: from, NewPauser: h.M.NewRole.Str})
		case hUpdateTokenController:
			h.M.NewRole.Str, h.M.NewRole.Valid = verifrt.NondetAddrStr("new_role")
			_, err = h.S.UpdateTokenController(ctx, &types.MsgUpdateTokenController{From: from, NewTokenController: h.M.NewRole.Str})
		case hAcceptOwner:
			_, err = h.S.AcceptOwner(ctx, &types.MsgAcceptOwner{From: from})
		case hEnableAttester:
			h.M.Attester = verifrt.NondetString("m_attester", attCap)
			h.shape(asciiStr(h.M.Attester))
			_, err = h.S.EnableAttester(ctx, &types.MsgEnableAttester{From: from, Attester: h.M.Attester})
		case hDisableAttester:
			h.M.Attester = verifrt.NondetString("m_attester", attCap)
			h.shape(asciiStr(h.M.Attester))
			_, err = h.S.DisableAttester(ctx, &types.MsgDisableAttester{From: from, Attester: h.M.Attester})
		case hUpdateSignatureThreshold:
			h.M.Amount32 = verifrt.NondetU32("m_amount")
			_, err = h.S.UpdateSignatureThreshold(ctx, &types.MsgUpdateSignatureThreshold{From: from, Amount: h.M.Amount32})
		case hPauseBurningAndMinting:
			_, err = h.S.PauseBurningAndMinting(ctx, &types.MsgPauseBurningAndMinting{From: from})
		case hUnpauseBurningAndMinting:
			_, err = h.S.UnpauseBurningAndMinting(ctx, &types.MsgUnpauseBurningAndMinting{From: from})
		case hPauseSendingAndReceivingMessages:
			_, err = h.S.PauseSendingAndReceivingMessages(ctx, &types.MsgPauseSendingAndReceivingMessages{From: from})
		case hUnpauseSendingAndReceivingMessages:
			_, err = h.S.UnpauseSendingAndReceivingMessages(ctx, &types.MsgUnpauseSendingAndReceivingMessages{From: from})
		case hUpdateMaxMessageBodySize:
			h.M.Size = verifrt.NondetU64("m_size")
			_, err = h.S.UpdateMaxMessageBodySize(ctx, &types.MsgUpdateMaxMessageBodySize{From: from, MessageSize: h.M.Size})
		case hSetMaxBurnAmountPerMessage:
			h.M.Local = verifrt.NondetString("m_local", 4)
			h.shape(asciiStr(h.M.Local))
			h.M.Limit = h.amount("m_limit")
			_, err = h.S.SetMaxBurnAmountPerMessage(ctx, &types.MsgSetMaxBurnAmountPerMessage{From: from, LocalToken: h.M.Local, Amount: h.M.Limit})
		case hLinkTokenPair:
			h.M.Domain = verifrt.NondetU32("m_domain")
			h.M.Token = verifrt.NondetBytesOrNil("m_token", 33)
			h.M.Local = verifrt.NondetString("m_local", 4)
			h.shape(asciiStr(h.M.Local))
			_, err = h.S.LinkTokenPair(ctx, &types.MsgLinkTokenPair{From: from, RemoteDomain: h.M.Domain, RemoteToken: h.M.Token, LocalToken: h.M.Local})
		case hUnlinkTokenPair:
			h.M.Domain = verifrt.NondetU32("m_domain")
			h.M.Token = verifrt.NondetBytesOrNil("m_token", 33)
			h.M.Local = verifrt.NondetString("m_local", 4)
			h.shape(asciiStr(h.M.Local))
			_, err = h.S.UnlinkTokenPair(ctx, &types.MsgUnlinkTokenPair{From: from, RemoteDomain: h.M.Domain, RemoteToken: h.M.Token, LocalToken: h.M.Local})
		case hAddRemoteTokenMessenger:
			h.M.Domain = verifrt.NondetU32("m_domain")
			h.M.Address = verifrt.NondetBytesOrNil("m_address", 33)
			_, err = h.S.AddRemoteTokenMessenger(ctx, &types.MsgAddRemoteTokenMessenger{From: from, DomainId: h.M.Domain, Address: h.M.Address})
		case hRemoveRemoteTokenMessenger:
			h.M.Domain = verifrt.NondetU32("m_domain")
			_, err = h.S.RemoveRemoteTokenMessenger(ctx, &types.MsgRemoveRemoteTokenMessenger{From: from, DomainId: h.M.Domain})
		}
	})
	h.LastErr = err
	return verifrt.All(!panicked, err == nil), panicked
}

// ---------------------------------------------------------------------------------------------
// the 7 unprivileged handlers

type userCaps struct {
	body  int // message body bytes (send / replace)
	msg   int // original / inbound message bytes
	att   int // attestation bytes
	denom int // denom / burn token bytes
}

func smallCaps() userCaps { return userCaps{body: 4, msg: 116 + 133, att: 65*2 + 1, denom: 5} }

type userMsg struct {
	From        verifrt.Addr
	Amount      math.Int
	Domain      uint32
	Recipient   []byte
	Body        []byte
	Caller      []byte
	BurnToken   string
	Message     []byte
	Attestation []byte
	Nonce       uint64 // response nonce (producers)
}

// setupUserState is the pre-state for the unprivileged handlers: scalars, 1..maxAtt attesters, one
// registry entry of each kind, and the fiat-token-factory minting denom (an arbitrary valid denom).
func (h *H) setupUserState(maxAtt int, c userCaps) {
	h.setupRolesFixed()
	h.setupScalars()
	h.setupAttesters(maxAtt)
	h.setupRegistries()
	d := verifrt.NondetString("mint_denom", c.denom)
	verifrt.Assume(validDenomRef(d))
	h.Env.FTF.MintDenom = d
}

// validDenomRef is the SDK's default denom grammar [a-zA-Z][a-zA-Z0-9/:._-]{2,127} written out for
// strings of at most 8 bytes.
func validDenomRef(d string) bool {
	ok := verifrt.All(len(d) >= 3, len(d) <= 8)
	for i := 0; i < 8; i++ {
		c := verifrt.ByteAt(d, i)
		alpha := verifrt.Any(verifrt.All(c >= 'a', c <= 'z'), verifrt.All(c >= 'A', c <= 'Z'))
		rest := verifrt.Any(alpha, verifrt.All(c >= '0', c <= '9'), c == '/', c == ':', c == '.', c == '_', c == '-')
		if i == 0 {
			ok = verifrt.All(ok, alpha)
		} else {
			ok = verifrt.All(ok, verifrt.Any(i >= len(d), rest))
		}
	}
	return ok
}

// callUser submits unprivileged transaction idx with fully symbolic fields.
func (h *H) callUser(idx int, c userCaps) (ok bool, panicked bool, m *userMsg) {
	ctx := h.Env.Ctx
	m = &userMsg{From: verifrt.NondetAddr("from")}
	var err error
	panicked = verifrt.Catch(func() {
		switch idx {
		case hDepositForBurn:
			m.Amount = h.amount("m_amount")
			m.Domain = verifrt.NondetU32("m_domain")
			m.Recipient = verifrt.NondetBytesOrNil("m_mint_recipient", 33)
			m.BurnToken = verifrt.NondetString("m_burn_token", c.denom)
			h.shape(asciiStr(m.BurnToken))
			resp, e := h.S.DepositForBurn(ctx, &types.MsgDepositForBurn{From: m.From.Str, Amount: m.Amount, DestinationDomain: m.Domain, MintRecipient: m.Recipient, BurnToken: m.BurnToken})
			err = e
			if resp != nil {
				m.Nonce = resp.Nonce
			}
		case hDepositForBurnWithCaller:
			m.Amount = h.amount("m_amount")
			m.Domain = verifrt.NondetU32("m_domain")
			m.Recipient = verifrt.NondetBytesOrNil("m_mint_recipient", 33)
			m.BurnToken = verifrt.NondetString("m_burn_token", c.denom)
			h.shape(asciiStr(m.BurnToken))
			m.Caller = verifrt.NondetBytesOrNil("m_caller", 33)
			resp, e := h.S.DepositForBurnWithCaller(ctx, &types.MsgDepositForBurnWithCaller{From: m.From.Str, Amount: m.Amount, DestinationDomain: m.Domain, MintRecipient: m.Recipient, BurnToken: m.BurnToken, DestinationCaller: m.Caller})
			err = e
			if resp != nil {
				m.Nonce = resp.Nonce
			}
		case hSendMessage:
			m.Domain = verifrt.NondetU32("m_domain")
			m.Recipient = verifrt.NondetBytesOrNil("m_recipient", 33)
			m.Body = verifrt.NondetBytesOrNil("m_body", c.body)
			resp, e := h.S.SendMessage(ctx, &types.MsgSendMessage{From: m.From.Str, DestinationDomain: m.Domain, Recipient: m.Recipient, MessageBody: m.Body})
			err = e
			if resp != nil {
				m.Nonce = resp.Nonce
			}
		case hSendMessageWithCaller:
			m.Domain = verifrt.NondetU32("m_domain")
			m.Recipient = verifrt.NondetBytesOrNil("m_recipient", 33)
			m.Body = verifrt.NondetBytesOrNil("m_body", c.body)
			m.Caller = verifrt.NondetBytesOrNil("m_caller", 33)
			resp, e := h.S.SendMessageWithCaller(ctx, &types.MsgSendMessageWithCaller{From: m.From.Str, DestinationDomain: m.Domain, Recipient: m.Recipient, MessageBody: m.Body, DestinationCaller: m.Caller})
			err = e
			if resp != nil {
				m.Nonce = resp.Nonce
			}
		case hReplaceMessage:
			m.Message = verifrt.NondetBytesOrNil("m_message", c.msg)
			m.Attestation = verifrt.NondetBytesOrNil("m_attestation", c.att)
			m.Body = verifrt.NondetBytesOrNil("m_body", c.body)
			m.Caller = verifrt.NondetBytesOrNil("m_caller", 33)
			_, err = h.S.ReplaceMessage(ctx, &types.MsgReplaceMessage{From: m.From.Str, OriginalMessage: m.Message, OriginalAttestation: m.Attestation, NewMessageBody: m.Body, NewDestinationCaller: m.Caller})
		case hReplaceDepositForBurn:
			m.Message = verifrt.NondetBytesOrNil("m_message", c.msg)
			m.Attestation = verifrt.NondetBytesOrNil("m_attestation", c.att)
			m.Caller = verifrt.NondetBytesOrNil("m_caller", 33)
			m.Recipient = verifrt.NondetBytesOrNil("m_mint_recipient", 33)
			_, err = h.S.ReplaceDepositForBurn(ctx, &types.MsgReplaceDepositForBurn{From: m.From.Str, OriginalMessage: m.Message, OriginalAttestation: m.Attestation, NewDestinationCaller: m.Caller, NewMintRecipient: m.Recipient})
		case hReceiveMessage:
			m.Message = verifrt.NondetBytesOrNil("m_message", c.msg)
			m.Attestation = verifrt.NondetBytesOrNil("m_attestation", c.att)
			_, err = h.S.ReceiveMessage(ctx, &types.MsgReceiveMessage{From: m.From.Str, Message: m.Message, Attestation: m.Attestation})
		}
	})
	h.LastErr = err
	return verifrt.All(!panicked, err == nil), panicked, m
}
