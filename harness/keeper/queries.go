package keeper

// The 19 queries: single-item queries find an entry iff it exists (C19), scalar queries return the
// stored values (C19, C07), list queries page through every entry exactly once with the SDK's real
// query.Paginate executed from source (C19); queries and genesis export write nothing (C15); no
// request makes a query panic (C20).

import (
	"bytes"
	"encoding/hex"

	"github.com/circlefin/noble-cctp/x/cctp/types"
	"github.com/circlefin/noble-cctp/x/cctp/verifrt"
	"github.com/cosmos/cosmos-sdk/types/query"
)

func init() {
	verifrt.Register("Harness_C19_SingleItemQueries", Harness_C19_SingleItemQueries)
	verifrt.Register("Harness_C19_ScalarQueries", Harness_C19_ScalarQueries)
	verifrt.Register("Harness_C19_PageOnce", Harness_C19_PageOnce)
	verifrt.Register("Harness_C19_PageWalkByKey", Harness_C19_PageWalkByKey)
	verifrt.Register("Harness_C19_PageWalkByOffset", Harness_C19_PageWalkByOffset)
	verifrt.Register("Harness_C15_QueriesWriteNothing", Harness_C15_QueriesWriteNothing)
	verifrt.Register("Harness_C07_NonceQuery", Harness_C07_NonceQuery)
	verifrt.Register("Harness_C02_UsedNonceQuery", Harness_C02_UsedNonceQuery)
	verifrt.Register("Harness_C19_ListQueriesReturnStoredValues", Harness_C19_ListQueriesReturnStoredValues)
}

// each list query over a registry holding two arbitrary entries returns exactly those two values
// (set equality, field by field), whichever order the keys sort in
func Harness_C19_ListQueriesReturnStoredValues() {
	h := newH("")
	h.setupRolesFixed()
	h.setupScalars()
	ctx := h.Env.Ctx
	which := verifrt.NondetChoice("which", 5)
	pr := &query.PageRequest{Limit: 2 + verifrt.NondetU64("q_extra_limit")%3}
	switch which {
	case 0:
		d0, n0 := verifrt.NondetU32("d0"), verifrt.NondetU64("n0")
		d1, n1 := verifrt.NondetU32("d1"), verifrt.NondetU64("n1")
		verifrt.Assume(verifrt.Any(d0 != d1, n0 != n1))
		h.K.SetUsedNonce(ctx, types.Nonce{SourceDomain: d0, Nonce: n0})
		h.K.SetUsedNonce(ctx, types.Nonce{SourceDomain: d1, Nonce: n1})
		r, err := h.K.UsedNonces(ctx, &types.QueryAllUsedNoncesRequest{Pagination: pr})
		verifrt.Assert("C19/list/used-nonces-answer", verifrt.All(err == nil, r != nil))
		if err == nil && r != nil {
			a, b := false, false
			for _, x := range r.UsedNonces {
				a = verifrt.Any(a, verifrt.All(x.SourceDomain == d0, x.Nonce == n0))
				b = verifrt.Any(b, verifrt.All(x.SourceDomain == d1, x.Nonce == n1))
			}
			verifrt.Assert("C19/list/used-nonces-exact", verifrt.All(len(r.UsedNonces) == 2, a, b))
		}
	case 1:
		d0, d1 := verifrt.NondetU32("d0"), verifrt.NondetU32("d1")
		a0, a1 := verifrt.NondetBytes("a0", 32), verifrt.NondetBytes("a1", 32)
		verifrt.Assume(verifrt.All(d0 != d1, len(a0) == 32, len(a1) == 32))
		h.K.SetRemoteTokenMessenger(ctx, types.RemoteTokenMessenger{DomainId: d0, Address: a0})
		h.K.SetRemoteTokenMessenger(ctx, types.RemoteTokenMessenger{DomainId: d1, Address: a1})
		r, err := h.K.RemoteTokenMessengers(ctx, &types.QueryRemoteTokenMessengersRequest{Pagination: pr})
		verifrt.Assert("C19/list/messengers-answer", verifrt.All(err == nil, r != nil))
		if err == nil && r != nil {
			a, b := false, false
			for _, x := range r.RemoteTokenMessengers {
				a = verifrt.Any(a, verifrt.All(x.DomainId == d0, bytes.Equal(x.Address, a0)))
				b = verifrt.Any(b, verifrt.All(x.DomainId == d1, bytes.Equal(x.Address, a1)))
			}
			verifrt.Assert("C19/list/messengers-exact", verifrt.All(len(r.RemoteTokenMessengers) == 2, a, b))
		}
	case 2:
		d0, d1 := verifrt.NondetU32("d0"), verifrt.NondetU32("d1")
		t0, t1 := verifrt.NondetBytes("t0", 32), verifrt.NondetBytes("t1", 32)
		l0, l1 := verifrt.NondetString("l0", 3), verifrt.NondetString("l1", 3)
		verifrt.Assume(verifrt.Any(d0 != d1, !bytes.Equal(t0, t1)))
		h.K.SetTokenPair(ctx, types.TokenPair{RemoteDomain: d0, RemoteToken: t0, LocalToken: l0})
		h.K.SetTokenPair(ctx, types.TokenPair{RemoteDomain: d1, RemoteToken: t1, LocalToken: l1})
		r, err := h.K.TokenPairs(ctx, &types.QueryAllTokenPairsRequest{Pagination: pr})
		verifrt.Assert("C19/list/token-pairs-answer", verifrt.All(err == nil, r != nil))
		if err == nil && r != nil {
			a, b := false, false
			for _, x := range r.TokenPairs {
				a = verifrt.Any(a, verifrt.All(x.RemoteDomain == d0, bytes.Equal(x.RemoteToken, t0), x.LocalToken == l0))
				b = verifrt.Any(b, verifrt.All(x.RemoteDomain == d1, bytes.Equal(x.RemoteToken, t1), x.LocalToken == l1))
			}
			verifrt.Assert("C19/list/token-pairs-exact", verifrt.All(len(r.TokenPairs) == 2, a, b))
		}
	case 3:
		s0, s1 := verifrt.NondetString("s0", 3), verifrt.NondetString("s1", 3)
		m0, m1 := verifrt.NondetIntNonNil("m0"), verifrt.NondetIntNonNil("m1")
		verifrt.Assume(s0 != s1)
		h.K.SetPerMessageBurnLimit(ctx, types.PerMessageBurnLimit{Denom: s0, Amount: m0})
		h.K.SetPerMessageBurnLimit(ctx, types.PerMessageBurnLimit{Denom: s1, Amount: m1})
		r, err := h.K.PerMessageBurnLimits(ctx, &types.QueryAllPerMessageBurnLimitsRequest{Pagination: pr})
		verifrt.Assert("C19/list/burn-limits-answer", verifrt.All(err == nil, r != nil))
		if err == nil && r != nil {
			a, b := false, false
			for _, x := range r.BurnLimits {
				a = verifrt.Any(a, verifrt.All(x.Denom == s0, verifrt.IntEq(x.Amount, m0)))
				b = verifrt.Any(b, verifrt.All(x.Denom == s1, verifrt.IntEq(x.Amount, m1)))
			}
			verifrt.Assert("C19/list/burn-limits-exact", verifrt.All(len(r.BurnLimits) == 2, a, b))
		}
	case 4:
		s0, s1 := verifrt.NondetString("s0", 3), verifrt.NondetString("s1", 3)
		verifrt.Assume(s0 != s1)
		h.K.SetAttester(ctx, types.Attester{Attester: s0})
		h.K.SetAttester(ctx, types.Attester{Attester: s1})
		r, err := h.K.Attesters(ctx, &types.QueryAllAttestersRequest{Pagination: pr})
		verifrt.Assert("C19/list/attesters-answer", verifrt.All(err == nil, r != nil))
		if err == nil && r != nil {
			a, b := false, false
			for _, x := range r.Attesters {
				a = verifrt.Any(a, x.Attester == s0)
				b = verifrt.Any(b, x.Attester == s1)
			}
			verifrt.Assert("C19/list/attesters-exact", verifrt.All(len(r.Attesters) == 2, a, b))
		}
	}
	verifrt.Cover("listed")
}

func queryState(maxAtt int) *H {
	h := newH("")
	h.setupAdminState(maxAtt)
	return h
}

func Harness_C19_SingleItemQueries() {
	h := queryState(2)
	ctx := h.Env.Ctx
	which := verifrt.NondetChoice("which", 5)
	switch which {
	case 0:
		a := verifrt.NondetString("q_attester", attCap)
		resp, err := h.K.Attester(ctx, &types.QueryGetAttesterRequest{Attester: a})
		present := false
		for _, x := range h.Att {
			present = verifrt.Any(present, x == a)
		}
		verifrt.Assert("C19/query/attester-found-iff-present", (err == nil) == present)
		if err == nil {
			verifrt.Assert("C19/query/attester-value", resp.Attester.Attester == a)
		}
	case 1:
		d := verifrt.NondetString("q_denom", 5)
		resp, err := h.K.PerMessageBurnLimit(ctx, &types.QueryGetPerMessageBurnLimitRequest{Denom: d})
		verifrt.Assert("C19/query/burn-limit-found-iff-present", (err == nil) == (d == h.LimitDenom))
		if err == nil {
			verifrt.Assert("C19/query/burn-limit-value", verifrt.All(resp.BurnLimit.Denom == h.LimitDenom, verifrt.IntEq(resp.BurnLimit.Amount, h.LimitAmount)))
		}
	case 2:
		d := verifrt.NondetU32("q_domain")
		resp, err := h.K.RemoteTokenMessenger(ctx, &types.QueryRemoteTokenMessengerRequest{DomainId: d})
		verifrt.Assert("C19/query/messenger-found-iff-present", (err == nil) == (d == h.MsgrDomain))
		if err == nil {
			verifrt.Assert("C19/query/messenger-value", verifrt.All(resp.RemoteTokenMessenger.DomainId == d, bytes.Equal(resp.RemoteTokenMessenger.Address, h.MsgrAddr)))
		}
	case 3:
		// the token is named by its hex spelling, optionally 0x-prefixed, left-padded to 32 bytes
		d := verifrt.NondetU32("q_domain")
		tok := verifrt.NondetBytes("q_token", 32)
		n := verifrt.Concrete(len(tok), 32)
		spelled := hex.EncodeToString(tok)
		if verifrt.NondetBool("q_0x") {
			spelled = "0x" + spelled
		}
		resp, err := h.K.TokenPair(ctx, &types.QueryGetTokenPairRequest{RemoteDomain: d, RemoteToken: spelled})
		padded := make([]byte, 32)
		copy(padded[32-n:], tok)
		present := verifrt.All(d == h.PairDomain, bytes.Equal(padded, h.PairToken))
		verifrt.Assert("C19/query/token-pair-found-iff-present", (err == nil) == present)
		if err == nil {
			verifrt.Assert("C19/query/token-pair-value", verifrt.All(resp.Pair.RemoteDomain == d, bytes.Equal(resp.Pair.RemoteToken, h.PairToken), resp.Pair.LocalToken == h.PairLocal))
		}
	case 4:
		d, n := verifrt.NondetU32("q_domain"), verifrt.NondetU64("q_nonce")
		resp, err := h.K.UsedNonce(ctx, &types.QueryGetUsedNonceRequest{SourceDomain: d, Nonce: n})
		present := verifrt.All(d == h.UsedDomain, n == h.UsedNonce)
		verifrt.Assert("C19/query/used-nonce-found-iff-present", (err == nil) == present)
		if err == nil {
			verifrt.Assert("C19/query/used-nonce-value", verifrt.All(resp.Nonce.SourceDomain == d, resp.Nonce.Nonce == n))
		}
	}
	verifrt.Cover("queried")
}

func Harness_C02_UsedNonceQuery() {
	h := queryState(1)
	d, n := verifrt.NondetU32("q_domain"), verifrt.NondetU64("q_nonce")
	_, err := h.K.UsedNonce(h.Env.Ctx, &types.QueryGetUsedNonceRequest{SourceDomain: d, Nonce: n})
	verifrt.Assert("C02/query/reported-used-iff-entry-present", (err == nil) == verifrt.All(d == h.UsedDomain, n == h.UsedNonce))
	verifrt.Cover("queried")
}

func Harness_C07_NonceQuery() {
	h := queryState(1)
	resp, err := h.K.NextAvailableNonce(h.Env.Ctx, &types.QueryGetNextAvailableNonceRequest{})
	verifrt.Assert("C07/query/returns-counter", verifrt.All(err == nil, resp != nil))
	if err == nil && resp != nil {
		verifrt.Assert("C07/query/counter-value", resp.Nonce.Nonce == h.NextNonce)
	}
	verifrt.Cover("queried")
}

func Harness_C19_ScalarQueries() {
	h := queryState(1)
	ctx := h.Env.Ctx
	r1, e1 := h.K.Roles(ctx, &types.QueryRolesRequest{})
	r2, e2 := h.K.BurningAndMintingPaused(ctx, &types.QueryGetBurningAndMintingPausedRequest{})
	r3, e3 := h.K.SendingAndReceivingMessagesPaused(ctx, &types.QueryGetSendingAndReceivingMessagesPausedRequest{})
	r4, e4 := h.K.MaxMessageBodySize(ctx, &types.QueryGetMaxMessageBodySizeRequest{})
	r5, e5 := h.K.NextAvailableNonce(ctx, &types.QueryGetNextAvailableNonceRequest{})
	r6, e6 := h.K.SignatureThreshold(ctx, &types.QueryGetSignatureThresholdRequest{})
	r7, e7 := h.K.LocalDomain(ctx, &types.QueryLocalDomainRequest{})
	r8, e8 := h.K.LocalMessageVersion(ctx, &types.QueryLocalMessageVersionRequest{})
	r9, e9 := h.K.BurnMessageVersion(ctx, &types.QueryBurnMessageVersionRequest{})
	allOK := verifrt.All(e1 == nil, e2 == nil, e3 == nil, e4 == nil, e5 == nil, e6 == nil, e7 == nil, e8 == nil, e9 == nil)
	verifrt.Assert("C19/query/scalars-answer", allOK)
	if !allOK {
		return
	}
	verifrt.Cover("queried")
	verifrt.Assert("C19/query/scalar-values", verifrt.All(
		r1.Owner == h.Role[slotOwner], r1.AttesterManager == h.Role[slotAttesterManager], r1.Pauser == h.Role[slotPauser], r1.TokenController == h.Role[slotTokenController],
		r2.Paused.Paused == h.BurnPaused, r3.Paused.Paused == h.SendPaused,
		r4.Amount.Amount == h.MaxBody, r5.Nonce.Nonce == h.NextNonce, r6.Amount.Amount == h.Threshold,
		r7.DomainId == 4, r8.Version == 0, r9.Version == 0,
	))
}

// pageReq is an arbitrary forward page request without a key.
func pageReq() *query.PageRequest {
	return &query.PageRequest{Offset: verifrt.NondetU64("q_offset"), Limit: verifrt.NondetU64("q_limit"), CountTotal: verifrt.NondetBool("q_count")}
}

// one page of each list query: at most limit entries, all of them stored entries, total = number of
// entries when requested
func Harness_C19_PageOnce() {
	h := queryState(2)
	ctx := h.Env.Ctx
	which := verifrt.NondetChoice("which", 5)
	pr := pageReq()
	verifrt.Assume(verifrt.All(pr.Limit >= 1, pr.Limit <= 4, pr.Offset <= 4))
	var got, total uint64
	var n int
	var pres *query.PageResponse
	var err error
	known := true
	switch which {
	case 0:
		var r *types.QueryAllAttestersResponse
		r, err = h.K.Attesters(ctx, &types.QueryAllAttestersRequest{Pagination: pr})
		n = len(h.Att)
		if err == nil {
			got, pres = uint64(len(r.Attesters)), r.Pagination
			for _, x := range r.Attesters {
				f := false
				for _, a := range h.Att {
					f = verifrt.Any(f, a == x.Attester)
				}
				known = verifrt.All(known, f)
			}
		}
	case 1:
		var r *types.QueryAllPerMessageBurnLimitsResponse
		r, err = h.K.PerMessageBurnLimits(ctx, &types.QueryAllPerMessageBurnLimitsRequest{Pagination: pr})
		n = 1
		if err == nil {
			got, pres = uint64(len(r.BurnLimits)), r.Pagination
			for _, x := range r.BurnLimits {
				known = verifrt.All(known, x.Denom == h.LimitDenom)
			}
		}
	case 2:
		var r *types.QueryRemoteTokenMessengersResponse
		r, err = h.K.RemoteTokenMessengers(ctx, &types.QueryRemoteTokenMessengersRequest{Pagination: pr})
		n = 1
		if err == nil {
			got, pres = uint64(len(r.RemoteTokenMessengers)), r.Pagination
			for _, x := range r.RemoteTokenMessengers {
				known = verifrt.All(known, x.DomainId == h.MsgrDomain)
			}
		}
	case 3:
		var r *types.QueryAllTokenPairsResponse
		r, err = h.K.TokenPairs(ctx, &types.QueryAllTokenPairsRequest{Pagination: pr})
		n = 1
		if err == nil {
			got, pres = uint64(len(r.TokenPairs)), r.Pagination
			for _, x := range r.TokenPairs {
				known = verifrt.All(known, x.RemoteDomain == h.PairDomain, bytes.Equal(x.RemoteToken, h.PairToken))
			}
		}
	case 4:
		var r *types.QueryAllUsedNoncesResponse
		r, err = h.K.UsedNonces(ctx, &types.QueryAllUsedNoncesRequest{Pagination: pr})
		n = 1
		if err == nil {
			got, pres = uint64(len(r.UsedNonces)), r.Pagination
			for _, x := range r.UsedNonces {
				known = verifrt.All(known, x.SourceDomain == h.UsedDomain, x.Nonce == h.UsedNonce)
			}
		}
	}
	verifrt.Assert("C19/page/answers", verifrt.All(err == nil, pres != nil))
	if err != nil || pres == nil {
		return
	}
	verifrt.Cover("paged")
	total = pres.Total
	// window size = min(limit, max(0, n-offset))
	rest := verifrt.Ite64(uint64(n) > pr.Offset, uint64(n)-pr.Offset, 0)
	want := verifrt.Ite64(rest < pr.Limit, rest, pr.Limit)
	verifrt.Assert("C19/page/window-size", got == want)
	verifrt.Assert("C19/page/entries-are-stored-entries", known)
	verifrt.Assert("C19/page/total", verifrt.Implies(pr.CountTotal, total == uint64(n)))
	verifrt.Assert("C19/page/next-key-iff-more", (len(pres.NextKey) != 0) == (pr.Offset+pr.Limit < uint64(n)))
}

func attesterSeen(seen []bool, atts []string, got []types.Attester) ([]bool, bool) {
	ok := true
	for _, x := range got {
		hit := false
		for i, a := range atts {
			if !hit && a == x.Attester {
				ok = verifrt.All(ok, !seen[i]) // never twice
				seen[i] = true
				hit = true
			}
		}
		ok = verifrt.All(ok, hit)
	}
	return seen, ok
}

// walking the attester list by NextKey with any page size 1..n+1 returns every attester exactly once
func Harness_C19_PageWalkByKey() {
	maxAtt := 2
	if verifrt.Tier() == 1 {
		maxAtt = 3
	}
	h := queryState(maxAtt)
	ctx := h.Env.Ctx
	n := len(h.Att)
	limit := 1 + verifrt.NondetChoice("q_limit", n+1)
	seen := make([]bool, n)
	okAll := true
	var key []byte
	pages := 0
	for {
		r, err := h.K.Attesters(ctx, &types.QueryAllAttestersRequest{Pagination: &query.PageRequest{Key: key, Limit: uint64(limit)}})
		verifrt.Assert("C19/walk-key/page-answers", verifrt.All(err == nil, r != nil))
		if err != nil || r == nil {
			return
		}
		var ok bool
		seen, ok = attesterSeen(seen, h.Att, r.Attesters)
		okAll = verifrt.All(okAll, ok, len(r.Attesters) <= limit)
		pages++
		if r.Pagination == nil || len(r.Pagination.NextKey) == 0 || pages > n+1 {
			break
		}
		key = r.Pagination.NextKey
	}
	verifrt.Cover("walked")
	all := true
	for i := range seen {
		all = verifrt.All(all, seen[i])
	}
	verifrt.Assert("C19/walk-key/every-entry-exactly-once", verifrt.All(okAll, all, pages <= n+1))
}

// walking by offset with any page size returns every attester exactly once and a correct total
func Harness_C19_PageWalkByOffset() {
	maxAtt := 2
	if verifrt.Tier() == 1 {
		maxAtt = 3
	}
	h := queryState(maxAtt)
	ctx := h.Env.Ctx
	n := len(h.Att)
	limit := 1 + verifrt.NondetChoice("q_limit", n+1)
	seen := make([]bool, n)
	okAll := true
	for off := 0; off < n; off += limit {
		r, err := h.K.Attesters(ctx, &types.QueryAllAttestersRequest{Pagination: &query.PageRequest{Offset: uint64(off), Limit: uint64(limit), CountTotal: true}})
		verifrt.Assert("C19/walk-offset/page-answers", verifrt.All(err == nil, r != nil))
		if err != nil || r == nil {
			return
		}
		var ok bool
		seen, ok = attesterSeen(seen, h.Att, r.Attesters)
		okAll = verifrt.All(okAll, ok, r.Pagination != nil)
		if r.Pagination != nil {
			okAll = verifrt.All(okAll, r.Pagination.Total == uint64(n))
		}
	}
	verifrt.Cover("walked")
	all := true
	for i := range seen {
		all = verifrt.All(all, seen[i])
	}
	verifrt.Assert("C19/walk-offset/every-entry-exactly-once", verifrt.All(okAll, all))
}

// queries write nothing
func Harness_C15_QueriesWriteNothing() {
	h := queryState(2)
	ctx := h.Env.Ctx
	h.Env.BeginTx()
	pr := &query.PageRequest{Limit: verifrt.NondetU64("q_limit"), Offset: verifrt.NondetU64("q_offset"), CountTotal: verifrt.NondetBool("q_count")}
	verifrt.Assume(verifrt.All(pr.Limit <= 3, pr.Offset <= 3))
	h.K.Roles(ctx, &types.QueryRolesRequest{})
	h.K.Attester(ctx, &types.QueryGetAttesterRequest{Attester: verifrt.NondetString("q_attester", attCap)})
	h.K.Attesters(ctx, &types.QueryAllAttestersRequest{Pagination: pr})
	h.K.PerMessageBurnLimit(ctx, &types.QueryGetPerMessageBurnLimitRequest{Denom: verifrt.NondetString("q_denom", 5)})
	h.K.PerMessageBurnLimits(ctx, &types.QueryAllPerMessageBurnLimitsRequest{Pagination: pr})
	h.K.BurningAndMintingPaused(ctx, &types.QueryGetBurningAndMintingPausedRequest{})
	h.K.SendingAndReceivingMessagesPaused(ctx, &types.QueryGetSendingAndReceivingMessagesPausedRequest{})
	h.K.MaxMessageBodySize(ctx, &types.QueryGetMaxMessageBodySizeRequest{})
	h.K.NextAvailableNonce(ctx, &types.QueryGetNextAvailableNonceRequest{})
	h.K.SignatureThreshold(ctx, &types.QueryGetSignatureThresholdRequest{})
	h.K.TokenPair(ctx, &types.QueryGetTokenPairRequest{RemoteDomain: verifrt.NondetU32("q_domain"), RemoteToken: "0x00"})
	h.K.TokenPairs(ctx, &types.QueryAllTokenPairsRequest{Pagination: pr})
	h.K.UsedNonce(ctx, &types.QueryGetUsedNonceRequest{SourceDomain: verifrt.NondetU32("q_domain2"), Nonce: verifrt.NondetU64("q_nonce")})
	h.K.UsedNonces(ctx, &types.QueryAllUsedNoncesRequest{Pagination: pr})
	h.K.RemoteTokenMessenger(ctx, &types.QueryRemoteTokenMessengerRequest{DomainId: verifrt.NondetU32("q_domain3")})
	h.K.RemoteTokenMessengers(ctx, &types.QueryRemoteTokenMessengersRequest{Pagination: pr})
	h.K.LocalDomain(ctx, &types.QueryLocalDomainRequest{})
	h.K.LocalMessageVersion(ctx, &types.QueryLocalMessageVersionRequest{})
	h.K.BurnMessageVersion(ctx, &types.QueryBurnMessageVersionRequest{})
	verifrt.Cover("queried")
	verifrt.Assert("C15/queries/write-nothing", len(h.Env.Writes()) == 0)
}
