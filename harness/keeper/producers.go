package keeper

// The four producing transactions (SendMessage, SendMessageWithCaller, DepositForBurn,
// DepositForBurnWithCaller): one symbolic transaction from an arbitrary invariant-satisfying state
// with the obligations of C05 (ledger), C06 (content), C07 (nonce), C08 (deposit iff), C12 (pause
// matrix), C14 (all-or-nothing) and C15 (write set).

import (
	"bytes"

	"github.com/circlefin/noble-cctp/x/cctp/types"
	"github.com/circlefin/noble-cctp/x/cctp/verifrt"
)

func producerCaps() userCaps {
	c := smallCaps()
	c.body = 8
	if verifrt.Tier() == 1 {
		c.body = 140
	}
	return c
}

// refEncodeMsg is the CCTP message layout written out (DESIGN.md A.3).
func refEncodeMsg(version, src, dst uint32, nonce uint64, sender, recipient, caller, body []byte) []byte {
	out := make([]byte, 116+len(body))
	verifrt.RefPutU32(out, 0, version)
	verifrt.RefPutU32(out, 4, src)
	verifrt.RefPutU32(out, 8, dst)
	verifrt.RefPutU64(out, 12, nonce)
	copy(out[20:52], sender)
	copy(out[52:84], recipient)
	copy(out[84:116], caller)
	copy(out[116:], body)
	return out
}

func refEncodeBurn(version uint32, token, mintRecipient, amount32, sender []byte) []byte {
	out := make([]byte, 132)
	verifrt.RefPutU32(out, 0, version)
	copy(out[4:36], token)
	copy(out[36:68], mintRecipient)
	copy(out[68:100], amount32)
	copy(out[100:132], sender)
	return out
}

func producerLemma(idx int, p string, eventsMayFail bool) {
	producerLemmaAfter(idx, p, eventsMayFail, -1)
}

// producerLemmaAfter: before >= 0 first lets a different keeper instance successfully execute
// transaction `before` on an arbitrary other state in the same process.
func producerLemmaAfter(idx int, p string, eventsMayFail bool, before int) {
	producerLemmaFull(idx, p, eventsMayFail, before, nil)
}

// producerLemmaFull: pre, if given, runs on the prepared state before the transaction under test (C18
// uses it to let the SAME keeper instance execute a privileged transaction on a CacheContext branch
// that is then thrown away: the specification is judged on the state that is actually stored).
func producerLemmaFull(idx int, p string, eventsMayFail bool, before int, pre func(h *H)) {
	if before >= 0 {
		a := c18exec(before, "other_", "other_")
		verifrt.Assume(a.ok)
		verifrt.Cover("C18/other-instance-ran-first")
	}
	h := newH("")
	c := producerCaps()
	h.setupUserState(1, c)
	if idx == hDepositForBurn || idx == hDepositForBurnWithCaller {
		// limits are stored lower-cased by the only transaction that writes them
		verifrt.Assume(verifrt.LowerEq(h.LimitDenom, h.LimitDenom))
	}
	if pre != nil {
		pre(h)
	}
	h.Env.EventsMayFail(eventsMayFail)
	h.Env.FTF.MayPanic, h.Env.Bank.MayPanic = p == "C14", p == "C14" // failing by error or by panic
	h.Env.BeginTx()
	ok, panicked, m := h.callUser(idx, c)
	ctx := h.Env.Ctx
	isDeposit := idx == hDepositForBurn || idx == hDepositForBurnWithCaller
	withCaller := idx == hSendMessageWithCaller || idx == hDepositForBurnWithCaller

	evs := h.Env.Events()
	ws := h.Env.Writes()
	bank := h.Env.Bank.Calls
	burns := h.Env.FTF.Burns
	depFailed := false
	for i := range bank {
		depFailed = verifrt.Any(depFailed, bank[i].Err != nil)
	}
	for i := range burns {
		depFailed = verifrt.Any(depFailed, h.Env.FTF.BurnErrs[i] != nil)
	}
	evFailed := h.Env.EventFailures() > 0

	callerOK := true
	caller := make([]byte, 32)
	if withCaller {
		callerOK = verifrt.All(len(m.Caller) == 32, !verifrt.IsZero(m.Caller))
		caller = m.Caller
	}
	var spec, specNoDeps bool
	var sender, recipient, body []byte
	if isDeposit {
		limitApplies := verifrt.All(h.LimitSet, h.LimitDenom == verifrt.Lower(m.BurnToken))
		msgrFound := verifrt.All(h.MsgrSet, h.MsgrDomain == m.Domain)
		specNoDeps = verifrt.All(
			m.From.Valid,
			verifrt.IntCmp(m.Amount, verifrt.IntU64(0)) > 0,
			verifrt.Implies(limitApplies, verifrt.IntCmp(m.Amount, h.LimitAmount) <= 0),
			verifrt.Lower(m.BurnToken) == verifrt.Lower(h.Env.FTF.MintDenom),
			len(m.Recipient) == 32, !verifrt.IsZero(m.Recipient),
			msgrFound, !verifrt.IsZero(h.MsgrAddr),
			!h.BurnPaused, !h.SendPaused,
			h.MaxBody >= 132,
			callerOK,
		)
		sender = modulePadded()
		recipient = h.MsgrAddr
	} else {
		specNoDeps = verifrt.All(
			m.From.Valid,
			!h.SendPaused,
			uint64(len(m.Body)) <= h.MaxBody,
			len(m.Recipient) == 32, !verifrt.IsZero(m.Recipient),
			callerOK,
		)
		sender = verifrt.Pad32(m.From.Bytes)
		recipient = m.Recipient
		body = m.Body
	}
	spec = verifrt.All(specNoDeps, !depFailed)

	if ok {
		verifrt.Cover("producer/accepted")
	} else {
		verifrt.Cover("producer/rejected")
	}

	if p == "C08" && isDeposit {
		verifrt.Assert("C08/deposit/accept-implies-preconditions", verifrt.Implies(ok, verifrt.All(spec, len(bank) == 1, len(burns) == 1)))
		verifrt.Assert("C08/deposit/preconditions-imply-accept", verifrt.Implies(verifrt.All(specNoDeps, !eventsMayFail), verifrt.Any(ok, depFailed)))
		verifrt.Assert("C08/deposit/no-panic", !panicked)
	}
	if p == "C12" {
		verifrt.Assert("C12/producer/send-pause-blocks", verifrt.Implies(h.SendPaused, !ok))
		if isDeposit {
			verifrt.Assert("C12/producer/burn-pause-blocks-deposit", verifrt.Implies(h.BurnPaused, !ok))
		} else {
			// the burn pause is not a condition of plain sends
			verifrt.Assert("C12/producer/burn-pause-irrelevant-to-send", verifrt.Implies(verifrt.All(specNoDeps, !eventsMayFail), ok))
		}
	}
	if p == "C07" {
		after, found := h.K.GetNextAvailableNonce(ctx)
		if ok {
			verifrt.Assert("C07/producer/response-nonce-is-counter", m.Nonce == h.NextNonce)
			verifrt.Assert("C07/producer/counter-incremented-once", verifrt.All(found, after.Nonce == h.NextNonce+1))
		}
	}
	if p == "C15" {
		verifrt.Assert("C15/producer/write-set", verifrt.Implies(ok, onlyWrote(ws, h.nextNonceKey())))
	}
	if p == "C14" {
		verifrt.Assert("C14/producer/dependency-failure-implies-error", verifrt.Implies(depFailed, !ok))
		if eventsMayFail {
			verifrt.Assert("C14/producer/event-failure-implies-error", verifrt.Implies(evFailed, !ok))
		}
		if isDeposit {
			verifrt.Assert("C14/deposit/success-needs-debit-and-burn", verifrt.Implies(ok, verifrt.All(len(bank) == 1, len(burns) == 1, !depFailed,
				// ... and on the transaction's own state, not on a branch that is thrown away
				h.Env.Marked("bank_0"), h.Env.Marked("burn_0"))))
			// late validation failures after the funds moved still report an error
			late := verifrt.Any(h.SendPaused, h.MaxBody < 132, !callerOK, verifrt.IsZero(h.MsgrAddr))
			verifrt.Assert("C14/deposit/late-failure-implies-error", verifrt.Implies(late, !ok))
		}
		if ok {
			n := 0
			for i := range evs {
				if _, is := evs[i].(*types.MessageSent); is {
					n++
				}
			}
			verifrt.Assert("C14/producer/success-emits-one-message", n == 1)
			after, found := h.K.GetNextAvailableNonce(ctx)
			verifrt.Assert("C14/producer/success-increments-counter", verifrt.All(found, after.Nonce == h.NextNonce+1))
		}
	}
	if (p == "C05" || p == "C06") && ok {
		wantEvents := 1
		if isDeposit {
			wantEvents = 2
		}
		verifrt.Assert(p+"/producer/event-count", len(evs) == wantEvents)
		if len(evs) != wantEvents {
			return
		}
		sent, isSent := evs[0].(*types.MessageSent)
		verifrt.Assert(p+"/producer/first-event-is-message-sent", isSent)
		if !isSent {
			return
		}
		var amount32 []byte
		if isDeposit {
			amount32 = verifrt.IntToBytes32(m.Amount)
			body = refEncodeBurn(0, verifrt.Keccak([]byte(verifrt.Lower(m.BurnToken))), m.Recipient, amount32, verifrt.Pad32(m.From.Bytes))
		}
		exp := refEncodeMsg(0, 4, m.Domain, m.Nonce, sender, recipient, caller, body)
		if p == "C06" {
			// "exactly the requested" fields: a request whose recipient, mint recipient or caller does
			// not fill its 32-byte slot cannot be carried by the layout, so it is never accepted
			verifrt.Assert("C06/producer/requested-fields-fit-the-layout", verifrt.All(len(m.Recipient) == 32, verifrt.Implies(withCaller, len(m.Caller) == 32)))
			verifrt.Assert("C06/producer/message-bytes", bytes.Equal(sent.Message, exp))
			verifrt.Assert("C06/producer/nonce-is-response-nonce", verifrt.RefU64(verifrt.SubBytes(sent.Message, 12, 8), 0) == m.Nonce)
			if isDeposit {
				dep, isDep := evs[1].(*types.DepositForBurn)
				verifrt.Assert("C06/deposit/second-event-is-deposit-for-burn", isDep)
				if isDep {
					verifrt.Assert("C06/deposit/event-fields", verifrt.All(
						dep.Nonce == m.Nonce,
						verifrt.IntEq(dep.Amount, m.Amount),
						dep.Depositor == m.From.Str,
						bytes.Equal(dep.MintRecipient, m.Recipient),
						dep.DestinationDomain == m.Domain,
						bytes.Equal(dep.DestinationTokenMessenger, h.MsgrAddr),
						verifrt.Any(bytes.Equal(dep.DestinationCaller, caller), verifrt.All(!withCaller, len(dep.DestinationCaller) == 0)),
					))
				}
			}
		}
		if p == "C05" {
			r := refDecode(sent.Message)
			verifrt.Assert("C05/producer/sender-field", bytes.Equal(r.Sender, sender))
			if isDeposit {
				b := refDecodeBurn(sent.Message)
				verifrt.Assert("C05/deposit/body-amount", verifrt.IntEq(verifrt.IntFromBytes32(b.AmountBz), m.Amount))
				verifrt.Assert("C05/deposit/one-debit-one-burn", verifrt.All(len(bank) == 1, len(burns) == 1))
				// the next burn message gets a different outbound nonce (sums are taken over distinct nonces)
				after, found := h.K.GetNextAvailableNonce(ctx)
				verifrt.Assert("C05/deposit/nonce-not-reused", verifrt.All(found, after.Nonce == m.Nonce+1, after.Nonce != m.Nonce))
				if len(bank) == 1 && len(burns) == 1 {
					verifrt.Assert("C05/deposit/bank-args", verifrt.All(
						bytes.Equal(bank[0].Sender, m.From.Bytes),
						bank[0].Module == "cctp",
						len(bank[0].Amt) == 1,
					))
					if len(bank[0].Amt) == 1 {
						verifrt.Assert("C05/deposit/bank-coin", verifrt.All(
							bank[0].Amt[0].Denom == h.Env.FTF.MintDenom,
							verifrt.IntEq(bank[0].Amt[0].Amount, m.Amount),
						))
					}
					verifrt.Assert("C05/deposit/burn-args", verifrt.All(
						burns[0].From == verifrt.AddrOf(verifrt.ModuleAddr("cctp")),
						burns[0].Amount.Denom == h.Env.FTF.MintDenom,
						verifrt.IntEq(burns[0].Amount.Amount, m.Amount),
					))
				}
			} else {
				verifrt.Assert("C05/send/no-funds-moved", verifrt.All(len(bank) == 0, len(burns) == 0))
			}
		}
	}
}
