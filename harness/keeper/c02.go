package keeper

import "github.com/circlefin/noble-cctp/x/cctp/verifrt"

func init() {
	verifrt.Register("Harness_C02_Receive", Harness_C02_Receive)
}

// one symbolic ReceiveMessage from an arbitrary invariant-satisfying state (see receive.go)
func Harness_C02_Receive() { receiveLemma("C02", false) }
