package keeper

// C01: inbound messages need a quorum of distinct enabled attesters.
// VerifyAttestationSignatures is executed on arbitrary message bytes, arbitrary attestation bytes of
// any length up to 65*T+2, an arbitrary attester list and an arbitrary threshold, and compared with
// the attestation rule written in hspec.go (refAttestationValid).

import (
	"bytes"

	"github.com/circlefin/noble-cctp/x/cctp/types"
	"github.com/circlefin/noble-cctp/x/cctp/verifrt"
)

func init() {
	verifrt.Register("Harness_C01_VerifyIff", Harness_C01_VerifyIff)
	verifrt.Register("Harness_C01_Receive", Harness_C01_Receive)
	verifrt.Register("Harness_C01_Replace", Harness_C01_Replace)
	verifrt.Register("Harness_C01_DisabledAttesterLeavesTheSet", Harness_C01_DisabledAttesterLeavesTheSet)
}

func c01MaxT() int {
	if verifrt.Tier() == 1 {
		return 3
	}
	return 2
}

func Harness_C01_VerifyIff() {
	maxT := c01MaxT()
	msgCap := 8
	if verifrt.Tier() == 1 {
		msgCap = 64
	}
	msg := verifrt.NondetBytesOrNil("m_message", msgCap)
	att := verifrt.NondetBytesOrNil("m_attestation", 65*maxT+2)
	n := 1 + verifrt.NondetChoice("n_att", maxT)
	var names []string
	var list []types.Attester
	for i := 0; i < n; i++ {
		a := verifrt.NondetString("att"+string(rune('0'+i)), attCap)
		if i > 0 {
			verifrt.Assume(names[i-1] < a)
		}
		names = append(names, a)
		list = append(list, types.Attester{Attester: a})
	}
	t := verifrt.NondetU32("threshold")
	// reachable states keep the threshold at or below the number of enabled attesters (C13); zero is
	// included to check its explicit rejection
	verifrt.Assume(t <= uint32(n))
	// copy of the attestation as submitted (the verifier normalises recovery ids in place)
	orig := append([]byte{}, att...)
	err := VerifyAttestationSignatures(msg, att, list, t)
	verifrt.ProbeAttestation("m_message", "m_attestation", "att", msg, orig, names, maxT)
	spec := refAttestationValid(msg, orig, names, t, maxT)
	if err == nil {
		verifrt.Cover("accepted")
	} else {
		verifrt.Cover("rejected")
	}
	verifrt.Assert("C01/verify/accept-implies-valid", verifrt.Implies(err == nil, spec))
	verifrt.Assert("C01/verify/valid-implies-accept", verifrt.Implies(spec, err == nil))
	// corollary: the accepted signatures come from pairwise distinct signers
	if err == nil {
		digest := verifrt.Keccak(msg)
		distinct := true
		var keys [][]byte
		for i := 0; i < maxT; i++ {
			sig := verifrt.SubBytes(orig, 65*i, 65)
			v := sig[64]
			sig[64] = verifrt.Ite8(verifrt.Any(v == 27, v == 28), v-27, v)
			k, _ := verifrt.Recover(digest, sig)
			for j := range keys {
				distinct = verifrt.All(distinct, verifrt.Implies(uint32(i) < t, !bytes.Equal(keys[j], k)))
			}
			keys = append(keys, k)
		}
		verifrt.Assert("C01/verify/signers-pairwise-distinct", distinct)
	}
}

// "currently enabled": an attester that was disabled is no longer in the set handed to the verifier
func Harness_C01_DisabledAttesterLeavesTheSet() {
	h := newH("")
	h.setupAdminState(2)
	from := nondetSubmitter()
	h.Env.BeginTx()
	ok, _ := h.callAdmin(hDisableAttester, from)
	if !ok {
		verifrt.Cover("rejected")
		return
	}
	verifrt.Cover("disabled")
	gone := true
	for _, a := range h.K.GetAllAttesters(h.Env.Ctx) {
		gone = verifrt.All(gone, a.Attester != h.M.Attester)
	}
	verifrt.Assert("C01/disabled-attester-not-in-verifier-set", gone)
}

// the two call sites pass exactly the submitted bytes, all stored attesters and the stored threshold
func Harness_C01_Receive() { receiveLemma("C01", false) }
func Harness_C01_Replace() { replaceLemma(hReplaceMessage, "C01") }
