package keeper

// C18: execution is deterministic and depends only on chain state.
//
// Interference lemma: the same transaction is executed on the same state three times in one
// process -- first on a fresh keeper instance (B1), then, after a DIFFERENT keeper instance has
// successfully executed an arbitrary transaction of the same type on an arbitrary other state (A),
// again on a fresh instance over an identical state (B2). Outcome, response, store writes and events
// of B1 and B2 must coincide. Anything the code retains outside the store (package-level caches,
// keeper fields), any wall-clock or random input, and any dependence on Go map iteration order (the
// engine enumerates the orders; a native replay repeats the run) shows up as a difference.

import (
	"bytes"

	sdk "github.com/cosmos/cosmos-sdk/types"

	"github.com/circlefin/noble-cctp/x/cctp/types"
	"github.com/circlefin/noble-cctp/x/cctp/verifrt"
)

type c18run struct {
	h     *H
	ok    bool
	nonce uint64
	text  string // text of the rejection ("" when accepted): part of the response
}

func c18caps() userCaps {
	c := smallCaps()
	c.att = 66
	c.body = 2
	return c
}

// c18exec runs transaction idx once on a fresh keeper instance. statePrefix scopes the names of the
// state's nondeterministic contents; reqPrefix those of the request.
func c18exec(idx int, statePrefix, reqPrefix string) c18run {
	h := newH("")
	var r c18run
	r.h = h
	if idx < numPrivileged {
		verifrt.PushPrefix(statePrefix)
		h.setupAdminState(2) // two attesters, so that disabling one can succeed
		verifrt.PopPrefix()
		verifrt.PushPrefix(reqPrefix)
		from := nondetSubmitter()
		h.Env.BeginTx()
		r.ok, _ = h.callAdmin(idx, from)
		verifrt.PopPrefix()
	} else {
		c := c18caps()
		verifrt.PushPrefix(statePrefix)
		h.setupUserState(1, c)
		h.assumeThresholdInvariant()
		verifrt.PopPrefix()
		verifrt.PushPrefix(reqPrefix)
		h.Env.BeginTx()
		var m *userMsg
		r.ok, _, m = h.callUser(idx, c)
		verifrt.PopPrefix()
		r.nonce = m.Nonce
		if idx == hReceiveMessage || idx == hReplaceMessage || idx == hReplaceDepositForBurn {
			verifrt.ProbeAttestation(reqPrefix+"m_message", reqPrefix+"m_attestation", statePrefix+"att", m.Message, m.Attestation, h.Att, 1)
		}
	}
	r.text = errString(h.LastErr)
	return r
}

func c18handler(idx int) {
	b1 := c18exec(idx, "", "")
	a := c18exec(idx, "other_", "other_")
	// the other instance did something (a failed transaction leaves no trace by the rollback contract)
	verifrt.Assume(a.ok)
	same := true
	n := verifrt.Repeat()
	for i := 0; i < n; i++ {
		b2 := c18exec(idx, "", "")
		same = verifrt.All(same, b1.ok == b2.ok, b1.nonce == b2.nonce, b1.text == b2.text, verifrt.SameObservations(b1.h.Env, b2.h.Env))
	}
	verifrt.Cover("compared")
	verifrt.Assert("C18/handler/outcome-independent-of-other-instances-and-of-repetition", same)
}

func init() {
	verifrt.Register("Harness_C18_VerifierIndependentOfEarlierVerifications", Harness_C18_VerifierIndependentOfEarlierVerifications)
	verifrt.Register("Harness_C18_VerdictNotRetainedAcrossAttesterSets", Harness_C18_VerdictNotRetainedAcrossAttesterSets)
	verifrt.Register("Harness_C18_VerifierSameVerdictAndTextEveryTime", Harness_C18_VerifierSameVerdictAndTextEveryTime)
}

func errString(e error) string {
	if e == nil {
		return ""
	}
	return e.Error()
}

// verifying the same (message, attestation, attester set, threshold) again gives the same verdict and
// the same rejection text: nothing in the verifier depends on scheduling (goroutines spawned by the
// code are run by the engine in every order; the native replay repeats the call), on map order or on
// earlier calls.
func Harness_C18_VerifierSameVerdictAndTextEveryTime() {
	msg := verifrt.NondetBytesOrNil("m_message", 8)
	att := verifrt.NondetBytesOrNil("m_attestation", 65*2+1)
	n := 1 + verifrt.NondetChoice("n_att", 2)
	var list []types.Attester
	var names []string
	for i := 0; i < n; i++ {
		a := verifrt.NondetString("att"+string(rune('0'+i)), attCap)
		if i > 0 {
			verifrt.Assume(names[i-1] < a)
		}
		names = append(names, a)
		list = append(list, types.Attester{Attester: a})
	}
	t := verifrt.NondetU32("threshold")
	verifrt.Assume(verifrt.All(t >= 1, t <= uint32(n)))
	e1 := errString(VerifyAttestationSignatures(msg, append([]byte{}, att...), list, t))
	same := true
	for i, k := 0, verifrt.Repeat(); i < k; i++ {
		e2 := errString(VerifyAttestationSignatures(msg, append([]byte{}, att...), list, t))
		same = verifrt.All(same, e1 == e2)
	}
	verifrt.ProbeAttestation("m_message", "m_attestation", "att", msg, att, names, 2)
	verifrt.Cover("compared")
	verifrt.Assert("C18/verifier/same-verdict-and-text-every-time", same)
}

// the replayable special case of the lemma below: an attestation by honest attester 1 is verified
// against the set {attester 0}, then against {attester 1} (accepted), then against {attester 0} again
func Harness_C18_VerdictNotRetainedAcrossAttesterSets() {
	verdictNotRetained("C18/verifier/verdict-not-retained-across-attester-sets")
}

func verdictNotRetained(label string) {
	msg := verifrt.NondetBytes("m_message", 8)
	a0, a1 := verifrt.HonestAttester(0), verifrt.HonestAttester(1)
	verifrt.Assume(a0 != a1)
	att := verifrt.HonestAttestationBy("m_attestation", msg, 1, 1)
	verifrt.Assume(refAttestationValid(msg, att, []string{a1}, 1, 1))
	set0 := []types.Attester{{Attester: a0}}
	set1 := []types.Attester{{Attester: a1}}
	e1 := VerifyAttestationSignatures(msg, append([]byte{}, att...), set0, 1)
	ea := VerifyAttestationSignatures(msg, append([]byte{}, att...), set1, 1)
	verifrt.Assume(ea == nil)
	e2 := VerifyAttestationSignatures(msg, append([]byte{}, att...), set0, 1)
	verifrt.Cover("compared")
	verifrt.Assert(label, (e1 == nil) == (e2 == nil))
}

// the attestation verdict for (message, attestation, attester set, threshold) does not depend on what
// was verified earlier in the same process against another attester set
func Harness_C18_VerifierIndependentOfEarlierVerifications() {
	msg := verifrt.NondetBytesOrNil("m_message", 8)
	att := verifrt.NondetBytesOrNil("m_attestation", 65*2+1)
	mk := func(prefix string) ([]types.Attester, []string, uint32) {
		n := 1 + verifrt.NondetChoice(prefix+"n_att", 2)
		var list []types.Attester
		var names []string
		for i := 0; i < n; i++ {
			a := verifrt.NondetString(prefix+"att"+string(rune('0'+i)), attCap)
			if i > 0 {
				verifrt.Assume(names[i-1] < a)
			}
			names = append(names, a)
			list = append(list, types.Attester{Attester: a})
		}
		t := verifrt.NondetU32(prefix + "threshold")
		verifrt.Assume(verifrt.All(t >= 1, t <= uint32(n)))
		return list, names, t
	}
	lb, nb, tb := mk("")
	la, na, ta := mk("other_")
	e1 := VerifyAttestationSignatures(msg, append([]byte{}, att...), lb, tb)
	// the earlier verification by the other instance succeeded (assumed up front to keep its
	// exploration small; C01 shows this is exactly when it returns nil)
	verifrt.Assume(refAttestationValid(msg, att, na, ta, 2))
	ea := VerifyAttestationSignatures(msg, append([]byte{}, att...), la, ta)
	verifrt.Assume(ea == nil)
	e2 := VerifyAttestationSignatures(msg, append([]byte{}, att...), lb, tb)
	verifrt.ProbeAttestation("m_message", "m_attestation", "att", msg, att, nb, 2)
	verifrt.Cover("compared")
	verifrt.Assert("C18/verifier/verdict-independent-of-earlier-verifications", (e1 == nil) == (e2 == nil))
}

// globalsFingerprint reads every package-level byte slice and scalar of the module's packages that
// handlers consult; a transaction must leave it unchanged.
func globalsFingerprint() []byte {
	var fp []byte
	fp = append(fp, zeroByteArray...)
	fp = append(fp, types.PaddedModuleAddress...)
	fp = append(fp, types.ModuleAddress...)
	fp = append(fp, types.OwnerKey...)
	fp = append(fp, types.PendingOwnerKey...)
	fp = append(fp, types.AttesterManagerKey...)
	fp = append(fp, types.PauserKey...)
	fp = append(fp, types.TokenControllerKey...)
	fp = append(fp, byte(remoteTokenNumBytes), byte(len(zeroByteArray)), byte(len(types.PaddedModuleAddress)))
	return fp
}

// c18globals: transaction idx (successful or not) leaves the module's package-level memory unchanged.
func c18globals(idx int) {
	before := append([]byte{}, globalsFingerprint()...)
	r := c18exec(idx, "", "")
	after := globalsFingerprint()
	if r.ok {
		verifrt.Cover("accepted")
	}
	verifrt.Cover("compared")
	verifrt.Assert("C18/handler/package-level-memory-unchanged", bytes.Equal(before, after))
}

// the acceptance specifications of receive (C03) and deposit (C08) keep holding on a fresh keeper
// instance after a different instance successfully executed transaction `before` in the same process
func c18receiveAfter(before int) { receiveLemmaN("C03", false, 1, before) }
func c18depositAfter(before int) { producerLemmaAfter(hDepositForBurn, "C08", false, before) }

// c18concurrent: two independent instances (fresh keeper, fresh store) that hold the same state execute
// the same transaction on two goroutines. The engine runs the two bodies one after the other and
// records the package-level memory each reads and writes outside a lock; a write by one that the
// other reads or writes is reported, and the native replay confirms it with the race detector (the
// replay binary is built with -race for this assertion). Bound: what is compared is memory the
// engine sees as package-level (variables of the executed packages and what their initialisers
// allocated); races inside modelled callees (SDK store, codec) are outside the claim.
func c18concurrent(idx int) {
	mk := func() *H {
		h := newH("")
		if idx < numPrivileged {
			h.setupAdminState(2)
		} else {
			h.setupUserState(1, c18caps())
			h.assumeThresholdInvariant()
		}
		return h
	}
	h1, h2 := mk(), mk()
	from := ""
	if idx < numPrivileged {
		from = nondetSubmitter()
	}
	body := func(h *H) func() {
		return func() {
			h.Env.BeginTx()
			if idx < numPrivileged {
				h.callAdmin(idx, from)
			} else {
				h.callUser(idx, c18caps())
			}
		}
	}
	verifrt.Parallel(body(h1), body(h2))
	verifrt.Cover("ran")
	verifrt.Assert("C18/handler/concurrent-instances-share-no-written-memory", !verifrt.Raced())
}

// runDiscarded executes privileged transaction idx, submitted by the holder of its role, on a branch of
// the current state (sdk.Context.CacheContext) that is never written: what it stored is gone, and
// nothing it left elsewhere (keeper fields, package-level memory) may influence later transactions.
func (h *H) runDiscarded(idx int) {
	root := h.Env.Ctx
	branch, _ := sdk.UnwrapSDKContext(root).CacheContext()
	h.Env.Ctx = branch
	verifrt.PushPrefix("disc_")
	ok, _ := h.callAdmin(idx, h.Role[specSlot(idx)])
	verifrt.PopPrefix()
	h.Env.Ctx = root
	verifrt.Assume(ok)
	verifrt.Cover("C18/discarded-transaction-ran-first")
}

// the acceptance specifications of deposit (C08) and receive (C03) are judged on the stored state even
// after the same keeper instance executed a privileged transaction on a branch that was thrown away
// (and after another instance sent a message, as in the lemmas above)
func c18depositAfterDiscarded(discarded int) {
	producerLemmaFull(hDepositForBurn, "C08", false, hSendMessage, func(h *H) { h.runDiscarded(discarded) })
}
func c18receiveAfterDiscarded(discarded int) {
	receiveLemmaFull("C03", false, 1, hSendMessage, func(h *H) { h.runDiscarded(discarded) })
}
