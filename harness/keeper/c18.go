package keeper

// C18: execution is deterministic and depends only on chain state.
//
// Interference lemma: the same transaction is executed on the same state three times in one
// process -- first on a fresh keeper instance (B1), then, after a DIFFERENT keeper instance has
// successfully executed an arbitrary transaction of the same type on an arbitrary other state (A),
// again on a fresh instance over an identical state (B2). Outcome, response, store writes and events
// of B1 and B2 must coincide. Anything the code retains outside the store (package-level caches,
// keeper fields), any wall-clock or random input, and any dependence on Go map iteration order (the
// engine enumerates the orders; a native replay repeats the run) shows up as a difference.

import (
	"github.com/circlefin/noble-cctp/x/cctp/verifrt"
)

type c18run struct {
	h     *H
	ok    bool
	nonce uint64
}

func c18caps() userCaps {
	c := smallCaps()
	c.att = 66
	c.body = 2
	return c
}

func c18exec(idx int) c18run {
	h := newH("")
	var r c18run
	r.h = h
	if idx < numPrivileged {
		h.setupAdminState(1)
		from := nondetSubmitter()
		h.Env.BeginTx()
		r.ok, _ = h.callAdmin(idx, from)
	} else {
		c := c18caps()
		h.setupUserState(1, c)
		h.assumeThresholdInvariant()
		h.Env.BeginTx()
		var m *userMsg
		r.ok, _, m = h.callUser(idx, c)
		r.nonce = m.Nonce
		if idx == hReceiveMessage || idx == hReplaceMessage || idx == hReplaceDepositForBurn {
			verifrt.ProbeAttestation(verifrt.Prefix()+"m_message", verifrt.Prefix()+"m_attestation", verifrt.Prefix()+"att", m.Message, m.Attestation, h.Att, 1)
		}
	}
	return r
}

func c18handler(idx int) {
	b1 := c18exec(idx)
	verifrt.PushPrefix("other_")
	a := c18exec(idx)
	verifrt.PopPrefix()
	// the other instance did something (a failed transaction leaves no trace by the rollback contract)
	verifrt.Assume(a.ok)
	same := true
	n := verifrt.Repeat()
	for i := 0; i < n; i++ {
		b2 := c18exec(idx)
		same = verifrt.All(same, b1.ok == b2.ok, b1.nonce == b2.nonce, verifrt.SameObservations(b1.h.Env, b2.h.Env))
	}
	verifrt.Cover("compared")
	verifrt.Assert("C18/handler/outcome-independent-of-other-instances-and-of-repetition", same)
}
