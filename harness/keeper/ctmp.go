package keeper

import "github.com/circlefin/noble-cctp/x/cctp/verifrt"

func init() {
	verifrt.Register("Harness_C99_ReceiveSmoke", Harness_C99_ReceiveSmoke)
	verifrt.Register("Harness_C99_ReceiveAll", Harness_C99_ReceiveAll)
}

func Harness_C99_ReceiveAll() { receiveLemma("", false) }

func Harness_C99_ReceiveSmoke() {
	h := newH("")
	c := smallCaps()
	h.setupUserState(2, c)
	h.Env.BeginTx()
	ok, p, _ := h.callUser(hReceiveMessage, c)
	if ok {
		verifrt.Cover("accepted")
	} else if p {
		verifrt.Cover("panicked")
	} else {
		verifrt.Cover("rejected")
	}
}
