package keeper

func c05producer(idx int) { producerLemma(idx, "C05", false) }
func c06producer(idx int) { producerLemma(idx, "C06", false) }
func c07producer(idx int) { producerLemma(idx, "C07", false) }
func c08producer(idx int) { producerLemma(idx, "C08", false) }
func c12producer(idx int) { producerLemma(idx, "C12", false) }
func c14producer(idx int) { producerLemma(idx, "C14", true) }
func c15producer(idx int) { producerLemma(idx, "C15", false) }
func c05replace(idx int)  { replaceLemma(idx, "C05") }
func c06replace(idx int)  { replaceLemma(idx, "C06") }
func c07replace(idx int)  { replaceLemma(idx, "C07") }
func c09replace(idx int)  { replaceLemma(idx, "C09") }
func c12replace(idx int)  { replaceLemma(idx, "C12") }
func c15replace(idx int)  { replaceLemma(idx, "C15") }
func c11admin(idx int)    { adminLemma(idx, "C11") }
func c12admin(idx int)    { adminLemma(idx, "C12") }
func c13admin(idx int)    { adminLemma(idx, "C13") }
func c15admin(idx int)    { adminLemma(idx, "C15") }
func c19admin(idx int)    { adminLemma(idx, "C19") }
func c11frame(idx int)    { frameLemma(idx, "C11") }
func c12frame(idx int)    { frameLemma(idx, "C12") }
func c13frame(idx int)    { frameLemma(idx, "C13") }
func c19frame(idx int)    { frameLemma(idx, "C19") }
func c07frame(idx int)    { frameLemma(idx, "C07") }
func c02frame(idx int)    { frameLemma(idx, "C02") }
func c04frame(idx int)    { frameLemma(idx, "C04") }
func c05frame(idx int)    { frameLemma(idx, "C05") }
