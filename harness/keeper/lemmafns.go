package keeper

func c05producer(idx int) { producerLemma(idx, "C05", false) }
func c06producer(idx int) { producerLemma(idx, "C06", false) }
func c07producer(idx int) { producerLemma(idx, "C07", false) }
func c08producer(idx int) { producerLemma(idx, "C08", false) }
func c12producer(idx int) { producerLemma(idx, "C12", false) }
func c14producer(idx int) { producerLemma(idx, "C14", true) }
func c15producer(idx int) { producerLemma(idx, "C15", false) }
