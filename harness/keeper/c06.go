package keeper

// C06 (two-transaction composition): a deposit is made, its emitted message is attested, and the
// depositor replaces it; the replacement's DepositForBurn event must name the same burn token as the
// original deposit's event.

import (
	"github.com/circlefin/noble-cctp/x/cctp/types"
	"github.com/circlefin/noble-cctp/x/cctp/verifrt"
)

func init() {
	verifrt.Register("Harness_C06_ReplacementEventNamesSameBurnToken", Harness_C06_ReplacementEventNamesSameBurnToken)
}

// setupHonestState: scalars, one registry entry of each kind, n honest attesters, threshold t.
func (h *H) setupHonestState(n int, t uint32, c userCaps) {
	ctx := h.Env.Ctx
	h.setupRolesFixed()
	h.setupScalars()
	verifrt.Assume(h.Threshold == t)
	for i := 0; i < n; i++ {
		a := verifrt.HonestAttester(i)
		for _, b := range h.Att {
			verifrt.Assume(a != b)
		}
		h.Att = append(h.Att, a)
		h.K.SetAttester(ctx, types.Attester{Attester: a})
	}
	h.setupRegistries()
	d := verifrt.NondetString("mint_denom", c.denom)
	verifrt.Assume(validDenomRef(d))
	h.Env.FTF.MintDenom = d
}

func Harness_C06_ReplacementEventNamesSameBurnToken() {
	h := newH("")
	c := producerCaps()
	h.setupHonestState(1, 1, c)
	ctx := h.Env.Ctx
	h.Env.BeginTx()
	ok1, _, m1 := h.callUser(hDepositForBurn, c)
	verifrt.Assume(ok1)
	evs := h.Env.Events()
	if len(evs) != 2 {
		return
	}
	sent, isSent := evs[0].(*types.MessageSent)
	dep1, isDep := evs[1].(*types.DepositForBurn)
	if !isSent || !isDep {
		return
	}
	verifrt.Cover("deposited")
	att := verifrt.HonestAttestation("r_attestation", sent.Message, 1)
	verifrt.Assume(refAttestationValid(sent.Message, att, h.Att, 1, 1))
	newRcpt := verifrt.NondetBytes("r_new_recipient", 32)
	verifrt.Assume(len(newRcpt) == 32)
	h.Env.BeginTx()
	_, err := h.S.ReplaceDepositForBurn(ctx, &types.MsgReplaceDepositForBurn{From: m1.From.Str, OriginalMessage: sent.Message,
		OriginalAttestation: att, NewDestinationCaller: verifrt.NondetBytesOrNil("r_new_caller", 33), NewMintRecipient: newRcpt})
	if err != nil {
		verifrt.Cover("replacement-rejected")
		return
	}
	verifrt.Cover("replaced")
	evs2 := h.Env.Events()
	if len(evs2) != 2 {
		return
	}
	dep2, isDep2 := evs2[1].(*types.DepositForBurn)
	if !isDep2 {
		return
	}
	verifrt.Assert("C06/replace/event-names-same-burn-token-as-deposit", dep2.BurnToken == dep1.BurnToken)
}
