package keeper

// The 18 privileged transactions: step lemmas for the role lifecycle (C11), the pause flags (C12),
// the attester/threshold invariant (C13), the registries (C19) and the write sets (C15); and the
// frame lemma: no transaction writes an entry it is not the documented writer of (C02, C07, C11,
// C12, C13, C19).

import (
	"bytes"

	"github.com/circlefin/noble-cctp/x/cctp/types"
	"github.com/circlefin/noble-cctp/x/cctp/verifrt"
)

type postState struct {
	Role                   [5]string
	PendingSet             bool
	BurnPaused, SendPaused bool
	MaxBody, NextNonce     uint64
	Threshold              uint32
	NAtt                   int
}

func (h *H) readPost() postState {
	ctx := h.Env.Ctx
	var p postState
	p.Role[slotOwner] = h.K.GetOwner(ctx)
	p.Role[slotPending], p.PendingSet = h.K.GetPendingOwner(ctx)
	p.Role[slotAttesterManager] = h.K.GetAttesterManager(ctx)
	p.Role[slotPauser] = h.K.GetPauser(ctx)
	p.Role[slotTokenController] = h.K.GetTokenController(ctx)
	bp, _ := h.K.GetBurningAndMintingPaused(ctx)
	sp, _ := h.K.GetSendingAndReceivingMessagesPaused(ctx)
	p.BurnPaused, p.SendPaused = bp.Paused, sp.Paused
	mb, _ := h.K.GetMaxMessageBodySize(ctx)
	nn, _ := h.K.GetNextAvailableNonce(ctx)
	th, _ := h.K.GetSignatureThreshold(ctx)
	p.MaxBody, p.NextNonce, p.Threshold = mb.Amount, nn.Nonce, th.Amount
	p.NAtt = len(h.K.GetAllAttesters(ctx))
	return p
}

func (h *H) rolesUnchangedExcept(p postState, slots ...int) bool {
	r := true
	for s := 0; s < 5; s++ {
		skip := false
		for _, x := range slots {
			if x == s {
				skip = true
			}
		}
		if skip {
			continue
		}
		if s == slotPending {
			r = verifrt.All(r, p.PendingSet == h.PendingSet, verifrt.Implies(h.PendingSet, p.Role[s] == h.Role[s]))
		} else {
			r = verifrt.All(r, p.Role[s] == h.Role[s])
		}
	}
	return r
}

func adminLemma(idx int, p string) {
	h := newH("")
	maxAtt := 2
	if p == "C13" {
		maxAtt = 3
	}
	h.setupAdminState(maxAtt)
	if p == "C13" {
		h.assumeThresholdInvariant()
	}
	from := nondetSubmitter()
	h.Env.BeginTx()
	ok, _ := h.callAdmin(idx, from)
	ws := h.Env.Writes()
	ctx := h.Env.Ctx
	if ok {
		verifrt.Cover("admin/accepted")
	} else {
		verifrt.Cover("admin/rejected")
	}
	isOwner := from == h.Role[slotOwner]

	switch p {
	case "C11":
		post := h.readPost()
		switch idx {
		case hUpdateOwner:
			verifrt.Assert("C11/update-owner-step", verifrt.Implies(ok, verifrt.All(
				isOwner, h.M.NewRole.Valid,
				post.PendingSet, post.Role[slotPending] == h.M.NewRole.Str,
				h.rolesUnchangedExcept(post, slotPending))))
		case hAcceptOwner:
			verifrt.Assert("C11/accept-owner-step", verifrt.Implies(ok, verifrt.All(
				h.PendingSet, from == h.Role[slotPending],
				post.Role[slotOwner] == h.Role[slotPending], !post.PendingSet,
				h.rolesUnchangedExcept(post, slotOwner, slotPending))))
		case hUpdateAttesterManager, hUpdatePauser, hUpdateTokenController:
			slot := slotAttesterManager
			if idx == hUpdatePauser {
				slot = slotPauser
			} else if idx == hUpdateTokenController {
				slot = slotTokenController
			}
			verifrt.Assert("C11/update-role-step", verifrt.Implies(ok, verifrt.All(
				isOwner, h.M.NewRole.Valid,
				post.Role[slot] == h.M.NewRole.Str,
				h.rolesUnchangedExcept(post, slot))))
		}
	case "C12":
		post := h.readPost()
		isPauser := from == h.Role[slotPauser]
		switch idx {
		case hPauseBurningAndMinting:
			verifrt.Assert("C12/flag-step", verifrt.Implies(ok, verifrt.All(isPauser, post.BurnPaused, post.SendPaused == h.SendPaused)))
		case hUnpauseBurningAndMinting:
			verifrt.Assert("C12/flag-step", verifrt.Implies(ok, verifrt.All(isPauser, !post.BurnPaused, post.SendPaused == h.SendPaused)))
		case hPauseSendingAndReceivingMessages:
			verifrt.Assert("C12/flag-step", verifrt.Implies(ok, verifrt.All(isPauser, post.SendPaused, post.BurnPaused == h.BurnPaused)))
		case hUnpauseSendingAndReceivingMessages:
			verifrt.Assert("C12/flag-step", verifrt.Implies(ok, verifrt.All(isPauser, !post.SendPaused, post.BurnPaused == h.BurnPaused)))
		}
	case "C13":
		post := h.readPost()
		n := len(h.Att)
		verifrt.Assert("C13/invariant-preserved", verifrt.Implies(ok, verifrt.All(post.Threshold >= 1, post.Threshold <= uint32(post.NAtt))))
		known := false
		for _, a := range h.Att {
			known = verifrt.Any(known, a == h.M.Attester)
		}
		switch idx {
		case hEnableAttester:
			verifrt.Assert("C13/enable-existing-rejected", verifrt.Implies(known, !ok))
			verifrt.Assert("C13/enable-adds-one", verifrt.Implies(ok, verifrt.All(post.NAtt == n+1, post.Threshold == h.Threshold)))
		case hDisableAttester:
			verifrt.Assert("C13/disable-unknown-rejected", verifrt.Implies(!known, !ok))
			verifrt.Assert("C13/disable-last-rejected", verifrt.Implies(n == 1, !ok))
			verifrt.Assert("C13/disable-below-threshold-rejected", verifrt.Implies(uint32(n) <= h.Threshold, !ok))
			verifrt.Assert("C13/disable-removes-one", verifrt.Implies(ok, verifrt.All(post.NAtt == n-1, post.Threshold == h.Threshold)))
		case hUpdateSignatureThreshold:
			verifrt.Assert("C13/threshold-zero-rejected", verifrt.Implies(h.M.Amount32 == 0, !ok))
			verifrt.Assert("C13/threshold-above-count-rejected", verifrt.Implies(h.M.Amount32 > uint32(n), !ok))
			verifrt.Assert("C13/threshold-set", verifrt.Implies(ok, verifrt.All(post.Threshold == h.M.Amount32, post.NAtt == n)))
		}
	case "C15":
		var allowed [][]byte
		switch idx {
		case hUpdateOwner:
			allowed = [][]byte{h.roleKey(slotPending)}
		case hAcceptOwner:
			allowed = [][]byte{h.roleKey(slotOwner), h.roleKey(slotPending)}
		case hUpdateAttesterManager:
			allowed = [][]byte{h.roleKey(slotAttesterManager)}
		case hUpdatePauser:
			allowed = [][]byte{h.roleKey(slotPauser)}
		case hUpdateTokenController:
			allowed = [][]byte{h.roleKey(slotTokenController)}
		case hEnableAttester, hDisableAttester:
			allowed = [][]byte{h.attesterKey(h.M.Attester)}
		case hUpdateSignatureThreshold:
			allowed = [][]byte{h.thresholdKey()}
		case hPauseBurningAndMinting, hUnpauseBurningAndMinting:
			allowed = [][]byte{h.burnFlagKey()}
		case hPauseSendingAndReceivingMessages, hUnpauseSendingAndReceivingMessages:
			allowed = [][]byte{h.sendFlagKey()}
		case hUpdateMaxMessageBodySize:
			allowed = [][]byte{h.maxBodyKey()}
		case hSetMaxBurnAmountPerMessage:
			allowed = [][]byte{h.limitKey(verifrt.Lower(h.M.Local))}
		case hLinkTokenPair, hUnlinkTokenPair:
			allowed = [][]byte{h.pairKey(h.M.Domain, h.M.Token)}
		case hAddRemoteTokenMessenger, hRemoveRemoteTokenMessenger:
			allowed = [][]byte{h.msgrKey(h.M.Domain)}
		}
		verifrt.Assert("C15/admin/write-set", verifrt.Implies(ok, onlyWrote(ws, allowed...)))
	case "C19":
		samePair := verifrt.All(h.PairDomain == h.M.Domain, bytes.Equal(h.PairToken, h.M.Token))
		switch idx {
		case hLinkTokenPair:
			got, found := h.K.GetTokenPair(ctx, h.M.Domain, h.M.Token)
			by, byFound := h.K.GetTokenPair(ctx, h.PairDomain, h.PairToken)
			verifrt.Assert("C19/link/duplicate-rejected", verifrt.Implies(samePair, !ok))
			verifrt.Assert("C19/link/creates-entry", verifrt.Implies(ok, verifrt.All(found, got.RemoteDomain == h.M.Domain,
				bytes.Equal(got.RemoteToken, h.M.Token), verifrt.LowerEq(got.LocalToken, h.M.Local), len(h.M.Token) == 32)))
			verifrt.Assert("C19/link/bystander-untouched", verifrt.Implies(ok, verifrt.All(byFound, by.LocalToken == h.PairLocal)))
		case hUnlinkTokenPair:
			_, found := h.K.GetTokenPair(ctx, h.M.Domain, h.M.Token)
			verifrt.Assert("C19/unlink/unknown-rejected", verifrt.Implies(!samePair, !ok))
			verifrt.Assert("C19/unlink/removes-entry", verifrt.Implies(ok, !found))
		case hAddRemoteTokenMessenger:
			got, found := h.K.GetRemoteTokenMessenger(ctx, h.M.Domain)
			by, byFound := h.K.GetRemoteTokenMessenger(ctx, h.MsgrDomain)
			verifrt.Assert("C19/add-messenger/duplicate-rejected", verifrt.Implies(h.MsgrDomain == h.M.Domain, !ok))
			verifrt.Assert("C19/add-messenger/creates-entry", verifrt.Implies(ok, verifrt.All(found, got.DomainId == h.M.Domain, bytes.Equal(got.Address, h.M.Address), len(h.M.Address) == 32)))
			verifrt.Assert("C19/add-messenger/bystander-untouched", verifrt.Implies(ok, verifrt.All(byFound, bytes.Equal(by.Address, h.MsgrAddr))))
		case hRemoveRemoteTokenMessenger:
			_, found := h.K.GetRemoteTokenMessenger(ctx, h.M.Domain)
			verifrt.Assert("C19/remove-messenger/unknown-rejected", verifrt.Implies(h.MsgrDomain != h.M.Domain, !ok))
			verifrt.Assert("C19/remove-messenger/removes-entry", verifrt.Implies(ok, !found))
		case hEnableAttester, hDisableAttester:
			known := false
			for _, a := range h.Att {
				known = verifrt.Any(known, a == h.M.Attester)
			}
			_, found := h.K.GetAttester(ctx, h.M.Attester)
			others := true
			for _, a := range h.Att {
				_, f := h.K.GetAttester(ctx, a)
				others = verifrt.All(others, verifrt.Any(f, a == h.M.Attester))
			}
			n := len(h.K.GetAllAttesters(ctx))
			if idx == hEnableAttester {
				verifrt.Assert("C19/enable/duplicate-rejected", verifrt.Implies(known, !ok))
				verifrt.Assert("C19/enable/creates-exactly-one", verifrt.Implies(ok, verifrt.All(found, others, n == len(h.Att)+1)))
			} else {
				verifrt.Assert("C19/disable/unknown-rejected", verifrt.Implies(!known, !ok))
				verifrt.Assert("C19/disable/removes-exactly-one", verifrt.Implies(ok, verifrt.All(!found, others, n == len(h.Att)-1)))
			}
		case hSetMaxBurnAmountPerMessage:
			got, found := h.K.GetPerMessageBurnLimit(ctx, verifrt.Lower(h.M.Local))
			by, byFound := h.K.GetPerMessageBurnLimit(ctx, h.LimitDenom)
			sameKey := h.LimitDenom == verifrt.Lower(h.M.Local)
			verifrt.Assert("C19/set-limit/stored-under-lower-cased-denom", verifrt.Implies(ok, verifrt.All(found, verifrt.LowerEq(got.Denom, h.M.Local))))
			// whether the denom already had a limit or not, the stored amount is the requested one
			verifrt.Assert("C19/set-limit/stores-requested-amount", verifrt.Implies(verifrt.All(ok, found), verifrt.IntEq(got.Amount, h.M.Limit)))
			verifrt.Assert("C19/set-limit/bystander-untouched", verifrt.Implies(verifrt.All(ok, !sameKey), verifrt.All(byFound, verifrt.IntEq(by.Amount, h.LimitAmount))))
		}
	}
	_ = types.ModuleName
}

// frameLemma: transaction idx (any of the 25) does not write the entries whose documented writers
// are other transactions (DESIGN.md A.2), for the entity classes of property p.
func frameLemma(idx int, p string) {
	h := newH("")
	var ok bool
	if idx < numPrivileged {
		h.setupAdminState(2)
		from := nondetSubmitter()
		h.Env.BeginTx()
		ok, _ = h.callAdmin(idx, from)
	} else {
		c := smallCaps()
		c.att = 66
		h.setupUserState(1, c)
		h.assumeThresholdInvariant()
		h.Env.BeginTx()
		ok, _, _ = h.callUser(idx, c)
	}
	ws := h.Env.Writes()
	if !ok {
		verifrt.Cover("frame/rejected")
		return
	}
	verifrt.Cover("frame/accepted")
	switch p {
	case "C04":
		verifrt.Assert("C04/frame/no-other-transaction-mints", len(h.Env.FTF.Mints) == 0)
	case "C05":
		verifrt.Assert("C05/frame/no-other-transaction-moves-funds", verifrt.All(len(h.Env.Bank.Calls) == 0, len(h.Env.FTF.Burns) == 0))
	case "C11":
		untouched := true
		for s := 0; s < 5; s++ {
			untouched = verifrt.All(untouched, !wrote(ws, h.roleKey(s)))
		}
		verifrt.Assert("C11/frame/no-other-role-writer", untouched)
	case "C12":
		verifrt.Assert("C12/frame/no-other-flag-writer", verifrt.All(!wrote(ws, h.burnFlagKey()), !wrote(ws, h.sendFlagKey())))
	case "C07":
		verifrt.Assert("C07/frame/no-other-counter-writer", !wrote(ws, h.nextNonceKey()))
	case "C02":
		d2, n2 := verifrt.NondetU32("other_domain"), verifrt.NondetU64("other_nonce")
		verifrt.Assert("C02/frame/no-other-used-nonce-writer", !wrote(ws, h.usedKey(d2, n2)))
	case "C13":
		a2 := verifrt.NondetString("other_attester", attCap)
		verifrt.Assert("C13/frame/no-other-attester-or-threshold-writer", verifrt.All(!wrote(ws, h.thresholdKey()), !wrote(ws, h.attesterKey(a2))))
	case "C19":
		d2 := verifrt.NondetU32("other_domain")
		t2 := verifrt.NondetBytes("other_token", 32)
		s2 := verifrt.NondetString("other_denom", 4)
		a2 := verifrt.NondetString("other_attester", attCap)
		n2 := verifrt.NondetU64("other_nonce")
		isPairWriter := idx == hLinkTokenPair || idx == hUnlinkTokenPair
		isMsgrWriter := idx == hAddRemoteTokenMessenger || idx == hRemoveRemoteTokenMessenger
		isAttWriter := idx == hEnableAttester || idx == hDisableAttester
		verifrt.Assert("C19/frame/registries-have-one-writer", verifrt.All(
			verifrt.Any(isPairWriter, !wrote(ws, h.pairKey(d2, t2))),
			verifrt.Any(isMsgrWriter, !wrote(ws, h.msgrKey(d2))),
			verifrt.Any(idx == hSetMaxBurnAmountPerMessage, !wrote(ws, h.limitKey(s2))),
			verifrt.Any(isAttWriter, !wrote(ws, h.attesterKey(a2))),
			verifrt.Any(idx == hReceiveMessage, !wrote(ws, h.usedKey(d2, n2))),
		))
	}
}

// adminIgnoresFlags: a privileged transaction's outcome does not depend on the pause flags (C12:
// administrative actions stay available while paused). The same request is run on two states that
// differ only in the two flags.
func adminIgnoresFlags(idx int) {
	h1 := newH("")
	h1.setupAdminState(1)
	from := nondetSubmitter()
	h1.Env.BeginTx()
	ok1, _ := h1.callAdmin(idx, from)
	h2 := newH("_b")
	h2.setupAdminState(1)
	h2.Env.BeginTx()
	ok2, _ := h2.callAdmin(idx, from)
	verifrt.Cover("compared")
	verifrt.Assert("C12/admin/outcome-independent-of-pause-flags", ok1 == ok2)
}
