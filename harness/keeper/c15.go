package keeper

import "github.com/circlefin/noble-cctp/x/cctp/verifrt"

func init() {
	verifrt.Register("Harness_C15_Receive", Harness_C15_Receive)
}

// one symbolic ReceiveMessage from an arbitrary invariant-satisfying state (see receive.go)
func Harness_C15_Receive() { receiveLemma("C15", false) }
