package types

// Key functions: distinct entities get distinct store keys (C19, C02), and no collection's keys can
// fall inside another collection's prefix.

import (
	"bytes"

	"github.com/circlefin/noble-cctp/x/cctp/verifrt"
)

func init() {
	verifrt.Register("Harness_C19_KeysAreInjective", Harness_C19_KeysAreInjective)
	verifrt.Register("Harness_C02_UsedNonceKeyInjective", Harness_C02_UsedNonceKeyInjective)
	verifrt.Register("Harness_C19_CollectionsAreSeparated", Harness_C19_CollectionsAreSeparated)
}

func Harness_C02_UsedNonceKeyInjective() {
	d1, n1 := verifrt.NondetU32("d1"), verifrt.NondetU64("n1")
	d2, n2 := verifrt.NondetU32("d2"), verifrt.NondetU64("n2")
	same := bytes.Equal(UsedNonceKey(n1, d1), UsedNonceKey(n2, d2))
	verifrt.Cover("compared")
	verifrt.Assert("C02/key/used-nonce-key-injective", verifrt.Implies(same, verifrt.All(d1 == d2, n1 == n2)))
}

func Harness_C19_KeysAreInjective() {
	d1, d2 := verifrt.NondetU32("d1"), verifrt.NondetU32("d2")
	n1, n2 := verifrt.NondetU64("n1"), verifrt.NondetU64("n2")
	verifrt.Assert("C19/key/used-nonce", verifrt.Implies(bytes.Equal(UsedNonceKey(n1, d1), UsedNonceKey(n2, d2)), verifrt.All(d1 == d2, n1 == n2)))
	verifrt.Assert("C19/key/token-messenger", verifrt.Implies(bytes.Equal(RemoteTokenMessengerKey(d1), RemoteTokenMessengerKey(d2)), d1 == d2))
	t1, t2 := verifrt.NondetBytesOrNil("t1", 33), verifrt.NondetBytesOrNil("t2", 33)
	verifrt.Assert("C19/key/token-pair", verifrt.Implies(bytes.Equal(TokenPairKey(d1, t1), TokenPairKey(d2, t2)), verifrt.All(d1 == d2, bytes.Equal(t1, t2))))
	a1, a2 := verifrt.NondetString("a1", 4), verifrt.NondetString("a2", 4)
	verifrt.Assert("C19/key/attester", verifrt.Implies(bytes.Equal(AttesterKey([]byte(a1)), AttesterKey([]byte(a2))), a1 == a2))
	verifrt.Assert("C19/key/burn-limit", verifrt.Implies(bytes.Equal(PerMessageBurnLimitKey(a1), PerMessageBurnLimitKey(a2)), a1 == a2))
	verifrt.Cover("compared")
}

func Harness_C19_CollectionsAreSeparated() {
	prefixes := [][]byte{
		KeyPrefix(AttesterKeyPrefix), KeyPrefix(PerMessageBurnLimitKeyPrefix), KeyPrefix(RemoteTokenMessengerKeyPrefix),
		KeyPrefix(TokenPairKeyPrefix), KeyPrefix(UsedNonceKeyPrefix), KeyPrefix(BurningAndMintingPausedKey), KeyPrefix(MaxMessageBodySizeKey),
		KeyPrefix(NextAvailableNonceKey), KeyPrefix(SendingAndReceivingMessagesPausedKey), KeyPrefix(SignatureThresholdKey),
		OwnerKey, PendingOwnerKey, AttesterManagerKey, PauserKey, TokenControllerKey,
	}
	ok := true
	for i := range prefixes {
		for j := range prefixes {
			if i != j {
				ok = verifrt.All(ok, !bytes.HasPrefix(prefixes[i], prefixes[j]), len(prefixes[i]) > 0)
			}
		}
	}
	verifrt.Cover("compared")
	verifrt.Assert("C19/key/no-collection-prefix-contains-another", ok)
}
