package types

// C20 (decoders): any byte string given to the message decoders, any field sizes given to the
// encoders and any string given to RemoteTokenPadded yields a result or an error, never a panic.

import (
	"github.com/circlefin/noble-cctp/x/cctp/verifrt"
)

func init() {
	verifrt.Register("Harness_C20_Decoders", Harness_C20_Decoders)
	verifrt.Register("Harness_C20_RemoteTokenPadded", Harness_C20_RemoteTokenPadded)
}

func Harness_C20_Decoders() {
	which := verifrt.NondetChoice("which", 4)
	panicked := verifrt.Catch(func() {
		switch which {
		case 0:
			new(Message).Parse(verifrt.NondetBytesOrNil("bz", 250))
		case 1:
			new(BurnMessage).Parse(verifrt.NondetBytesOrNil("bz", 140))
		case 2:
			m := Message{Sender: verifrt.NondetBytesOrNil("sender", 33), Recipient: verifrt.NondetBytesOrNil("recipient", 33),
				DestinationCaller: verifrt.NondetBytesOrNil("caller", 33), MessageBody: verifrt.NondetBytesOrNil("body", 8)}
			m.Bytes()
		case 3:
			m := BurnMessage{BurnToken: verifrt.NondetBytesOrNil("token", 33), MintRecipient: verifrt.NondetBytesOrNil("rcpt", 33),
				Amount: verifrt.NondetIntNonNil("amount"), MessageSender: verifrt.NondetBytesOrNil("sender", 33)}
			m.Bytes()
		}
	})
	verifrt.Cover("decoded")
	verifrt.Assert("C20/decoder/no-panic", !panicked)
}

func Harness_C20_RemoteTokenPadded() {
	s := verifrt.NondetString("hex", 70)
	if verifrt.Tier() == 0 {
		verifrt.Assume(verifrt.Any(len(s) <= 6, len(s) >= 62))
	}
	panicked := verifrt.Catch(func() { RemoteTokenPadded(s) })
	verifrt.Cover("decoded")
	verifrt.Assert("C20/token/no-panic", !panicked)
}
