package types

import (
	"testing"

	"github.com/circlefin/noble-cctp/x/cctp/verifrt"
)

func TestVerifReplay(t *testing.T) { verifrt.ReplayMain(t) }
