package types

// C17 (validation part): GenesisState.Validate rejects every genesis in which two entries of a keyed
// list would occupy the same key. Two arbitrary entries per list; the collision predicates are
// written from the property (same attester; same denom; same (domain, token); same (domain, nonce);
// same domain), not from the key functions.

import (
	"bytes"

	"github.com/circlefin/noble-cctp/x/cctp/verifrt"
)

func init() {
	verifrt.Register("Harness_C17_ValidateRejectsDuplicates", Harness_C17_ValidateRejectsDuplicates)
}

func Harness_C17_ValidateRejectsDuplicates() {
	a0, a1 := verifrt.NondetString("att0", 3), verifrt.NondetString("att1", 3)
	d0, d1 := verifrt.NondetString("denom0", 4), verifrt.NondetString("denom1", 4)
	pd0, pd1 := verifrt.NondetU32("pair_domain0"), verifrt.NondetU32("pair_domain1")
	pt0, pt1 := verifrt.NondetBytes("pair_token0", 32), verifrt.NondetBytes("pair_token1", 32)
	verifrt.Assume(verifrt.All(len(pt0) == 32, len(pt1) == 32))
	ud0, ud1 := verifrt.NondetU32("used_domain0"), verifrt.NondetU32("used_domain1")
	un0, un1 := verifrt.NondetU64("used_nonce0"), verifrt.NondetU64("used_nonce1")
	md0, md1 := verifrt.NondetU32("msgr_domain0"), verifrt.NondetU32("msgr_domain1")
	gs := GenesisState{
		AttesterList:                      []Attester{{Attester: a0}, {Attester: a1}},
		PerMessageBurnLimitList:           []PerMessageBurnLimit{{Denom: d0, Amount: verifrt.IntU64(1)}, {Denom: d1, Amount: verifrt.IntU64(2)}},
		BurningAndMintingPaused:           &BurningAndMintingPaused{Paused: verifrt.NondetBool("bp")},
		SendingAndReceivingMessagesPaused: &SendingAndReceivingMessagesPaused{Paused: verifrt.NondetBool("sp")},
		TokenPairList:                     []TokenPair{{RemoteDomain: pd0, RemoteToken: pt0, LocalToken: "a"}, {RemoteDomain: pd1, RemoteToken: pt1, LocalToken: "b"}},
		UsedNoncesList:                    []Nonce{{SourceDomain: ud0, Nonce: un0}, {SourceDomain: ud1, Nonce: un1}},
		TokenMessengerList:                []RemoteTokenMessenger{{DomainId: md0, Address: make([]byte, 32)}, {DomainId: md1, Address: make([]byte, 32)}},
	}
	err := gs.Validate()
	dupAtt := a0 == a1
	dupLimit := d0 == d1
	dupPair := verifrt.All(pd0 == pd1, bytes.Equal(pt0, pt1))
	dupUsed := verifrt.All(ud0 == ud1, un0 == un1)
	dupMsgr := md0 == md1
	if err == nil {
		verifrt.Cover("accepted")
	} else {
		verifrt.Cover("rejected")
	}
	verifrt.Assert("C17/validate-dup/attesters", verifrt.Implies(dupAtt, err != nil))
	verifrt.Assert("C17/validate-dup/burn-limits", verifrt.Implies(dupLimit, err != nil))
	verifrt.Assert("C17/validate-dup/token-pairs", verifrt.Implies(dupPair, err != nil))
	verifrt.Assert("C17/validate-dup/used-nonces", verifrt.Implies(dupUsed, err != nil))
	verifrt.Assert("C17/validate-dup/token-messengers", verifrt.Implies(dupMsgr, err != nil))
}
