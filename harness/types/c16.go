package types

// C16: the wire encodings are the CCTP formats and round-trip exactly.
// The reference codec below is written from the CCTP layout tables (DESIGN.md A.3) with literal
// offsets and shift-and-or arithmetic, independent of constants.go and of encoding/binary.

import (
	"bytes"

	"cosmossdk.io/math"
	"github.com/circlefin/noble-cctp/x/cctp/verifrt"
)

func init() {
	verifrt.Register("Harness_C16_MessageDecode", Harness_C16_MessageDecode)
	verifrt.Register("Harness_C16_MessageEncode", Harness_C16_MessageEncode)
	verifrt.Register("Harness_C16_MessageBadField", Harness_C16_MessageBadField)
	verifrt.Register("Harness_C16_BurnDecode", Harness_C16_BurnDecode)
	verifrt.Register("Harness_C16_BurnEncode", Harness_C16_BurnEncode)
	verifrt.Register("Harness_C16_BurnBadField", Harness_C16_BurnBadField)
	verifrt.Register("Harness_C16_RemoteTokenPadded", Harness_C16_RemoteTokenPadded)
	verifrt.Register("Harness_C16_DecodeIntoUsedReceiver", Harness_C16_DecodeIntoUsedReceiver)
	verifrt.Register("Harness_C16_EncodeDerivedLeavesSourceIntact", Harness_C16_EncodeDerivedLeavesSourceIntact)
}

// decoding is a function of the input bytes alone: a receiver that already holds arbitrary field
// values (a reused variable) ends up exactly as a fresh one
func Harness_C16_DecodeIntoUsedReceiver() {
	bz := verifrt.NondetBytes("bz", 120)
	verifrt.Assume(len(bz) >= 116)
	m := &Message{Version: verifrt.NondetU32("old_version"), Nonce: verifrt.NondetU64("old_nonce"),
		Sender: verifrt.NondetBytesOrNil("old_sender", 32), Recipient: verifrt.NondetBytesOrNil("old_recipient", 32),
		DestinationCaller: verifrt.NondetBytesOrNil("old_caller", 32), MessageBody: verifrt.NondetBytesOrNil("old_body", 6)}
	r, err := m.Parse(bz)
	verifrt.Cover("decoded")
	verifrt.Assert("C16/message/used-receiver-accepted", err == nil)
	if err != nil {
		return
	}
	verifrt.Assert("C16/message/used-receiver-decode-vs-reference", verifrt.All(
		r.Version == verifrt.RefU32(bz, 0), r.SourceDomain == verifrt.RefU32(bz, 4), r.DestinationDomain == verifrt.RefU32(bz, 8),
		r.Nonce == verifrt.RefU64(bz, 12), bytes.Equal(r.Sender, bz[20:52]), bytes.Equal(r.Recipient, bz[52:84]),
		bytes.Equal(r.DestinationCaller, bz[84:116]), bytes.Equal(r.MessageBody, bz[116:])))
	bb := verifrt.NondetBytes("burn_bz", 132)
	verifrt.Assume(len(bb) == 132)
	b := &BurnMessage{Version: verifrt.NondetU32("old_burn_version"), BurnToken: verifrt.NondetBytesOrNil("old_token", 32),
		MintRecipient: verifrt.NondetBytesOrNil("old_mint_recipient", 32), Amount: verifrt.NondetIntNonNil("old_amount"),
		MessageSender: verifrt.NondetBytesOrNil("old_burn_sender", 32)}
	rb, err2 := b.Parse(bb)
	verifrt.Assert("C16/burn/used-receiver-accepted", err2 == nil)
	if err2 != nil {
		return
	}
	verifrt.Assert("C16/burn/used-receiver-decode-vs-reference", verifrt.All(
		rb.Version == verifrt.RefU32(bb, 0), bytes.Equal(rb.BurnToken, bb[4:36]), bytes.Equal(rb.MintRecipient, bb[36:68]),
		verifrt.IntEq(rb.Amount, verifrt.IntFromBytes32(bb[68:100])), bytes.Equal(rb.MessageSender, bb[100:132])))
}

// encoding a message built from the fields of a decoded one (as the replacement path does: original
// sender, new recipient / caller) gives the reference bytes and leaves the wire bytes it was decoded
// from, and therefore the decoded original, untouched
func Harness_C16_EncodeDerivedLeavesSourceIntact() {
	bz := verifrt.NondetBytes("bz", 120)
	verifrt.Assume(len(bz) >= 116)
	saved := append([]byte{}, bz...)
	m, err := new(Message).Parse(bz)
	if err != nil {
		return
	}
	rcpt, caller := verifrt.NondetBytes("new_recipient", 32), verifrt.NondetBytes("new_caller", 32)
	verifrt.Assume(verifrt.All(len(rcpt) == 32, len(caller) == 32))
	d := Message{Version: m.Version, SourceDomain: m.SourceDomain, DestinationDomain: m.DestinationDomain, Nonce: m.Nonce,
		Sender: m.Sender, Recipient: rcpt, DestinationCaller: caller, MessageBody: m.MessageBody}
	out, err2 := d.Bytes()
	verifrt.Cover("encoded")
	verifrt.Assert("C16/message/encode-derived-ok", err2 == nil)
	exp := append([]byte{}, saved...)
	copy(exp[52:84], rcpt)
	copy(exp[84:116], caller)
	verifrt.Assert("C16/message/encode-derived-vs-reference", bytes.Equal(out, exp))
	verifrt.Assert("C16/message/encoding-leaves-decoded-source-intact", bytes.Equal(bz, saved))
}

func c16MsgCap() int {
	if verifrt.Tier() == 1 {
		return 400
	}
	return 256
}

// any byte string: short ones are rejected, long ones decode to the reference fields and re-encode
// to the same bytes.
func Harness_C16_MessageDecode() {
	bz := verifrt.NondetBytes("bz", c16MsgCap())
	m, err := new(Message).Parse(bz)
	if len(bz) < 116 {
		verifrt.Cover("short")
		verifrt.Assert("C16/message/short-rejected", err != nil)
		return
	}
	verifrt.Cover("long")
	verifrt.Assert("C16/message/long-accepted", err == nil)
	if err != nil {
		return
	}
	verifrt.Assert("C16/message/decode-vs-reference", verifrt.All(
		m.Version == verifrt.RefU32(bz, 0),
		m.SourceDomain == verifrt.RefU32(bz, 4),
		m.DestinationDomain == verifrt.RefU32(bz, 8),
		m.Nonce == verifrt.RefU64(bz, 12),
		bytes.Equal(m.Sender, bz[20:52]),
		bytes.Equal(m.Recipient, bz[52:84]),
		bytes.Equal(m.DestinationCaller, bz[84:116]),
		bytes.Equal(m.MessageBody, bz[116:]),
	))
	out, err2 := m.Bytes()
	verifrt.Assert("C16/message/reencode-ok", err2 == nil)
	verifrt.Assert("C16/message/roundtrip-bytes", bytes.Equal(out, bz))
}

// any well-formed value: encoding equals the reference encoding and decodes back to the value.
func Harness_C16_MessageEncode() {
	bodyCap := 140
	if verifrt.Tier() == 1 {
		bodyCap = 284
	}
	m := Message{
		Version:           verifrt.NondetU32("version"),
		SourceDomain:      verifrt.NondetU32("src"),
		DestinationDomain: verifrt.NondetU32("dst"),
		Nonce:             verifrt.NondetU64("nonce"),
		Sender:            verifrt.NondetBytes("sender", 32),
		Recipient:         verifrt.NondetBytes("recipient", 32),
		DestinationCaller: verifrt.NondetBytes("caller", 32),
		MessageBody:       verifrt.NondetBytesOrNil("body", bodyCap),
	}
	verifrt.Assume(len(m.Sender) == 32)
	verifrt.Assume(len(m.Recipient) == 32)
	verifrt.Assume(len(m.DestinationCaller) == 32)
	out, err := m.Bytes()
	verifrt.Assert("C16/message/encode-ok", err == nil)
	if err != nil {
		return
	}
	verifrt.Cover("encoded")
	ref := make([]byte, 116+bodyCap)
	verifrt.RefPutU32(ref, 0, m.Version)
	verifrt.RefPutU32(ref, 4, m.SourceDomain)
	verifrt.RefPutU32(ref, 8, m.DestinationDomain)
	verifrt.RefPutU64(ref, 12, m.Nonce)
	copy(ref[20:52], m.Sender)
	copy(ref[52:84], m.Recipient)
	copy(ref[84:116], m.DestinationCaller)
	copy(ref[116:], m.MessageBody)
	verifrt.Assert("C16/message/encode-vs-reference", verifrt.All(
		len(out) == 116+len(m.MessageBody),
		bytes.Equal(out, ref[:116+len(m.MessageBody)]),
	))
	back, err2 := new(Message).Parse(out)
	verifrt.Assert("C16/message/decode-of-encode-ok", err2 == nil)
	if err2 != nil {
		return
	}
	verifrt.Assert("C16/message/roundtrip-value", verifrt.All(
		back.Version == m.Version, back.SourceDomain == m.SourceDomain,
		back.DestinationDomain == m.DestinationDomain, back.Nonce == m.Nonce,
		bytes.Equal(back.Sender, m.Sender), bytes.Equal(back.Recipient, m.Recipient),
		bytes.Equal(back.DestinationCaller, m.DestinationCaller), bytes.Equal(back.MessageBody, m.MessageBody),
	))
}

// a 32-byte field of any other size (0..33) is rejected, whichever field it is.
func Harness_C16_MessageBadField() {
	m := Message{
		Sender:            verifrt.NondetBytesOrNil("sender", 33),
		Recipient:         verifrt.NondetBytesOrNil("recipient", 33),
		DestinationCaller: verifrt.NondetBytesOrNil("caller", 33),
		MessageBody:       verifrt.NondetBytes("body", 4),
	}
	wellFormed := verifrt.All(len(m.Sender) == 32, len(m.Recipient) == 32, len(m.DestinationCaller) == 32)
	_, err := m.Bytes()
	verifrt.Assert("C16/message/field-size-iff", (err == nil) == wellFormed)
	if err == nil {
		verifrt.Cover("ok")
	} else {
		verifrt.Cover("rejected")
	}
}

// burn message: any byte string; only exactly 132 bytes decode, to the reference fields, and
// re-encode to the same bytes.
func Harness_C16_BurnDecode() {
	bz := verifrt.NondetBytes("bz", 140)
	m, err := new(BurnMessage).Parse(bz)
	if len(bz) != 132 {
		verifrt.Cover("wrong-length")
		verifrt.Assert("C16/burn/wrong-length-rejected", err != nil)
		return
	}
	verifrt.Cover("exact-length")
	verifrt.Assert("C16/burn/exact-length-accepted", err == nil)
	if err != nil {
		return
	}
	verifrt.Assert("C16/burn/decode-vs-reference", verifrt.All(
		m.Version == verifrt.RefU32(bz, 0),
		bytes.Equal(m.BurnToken, bz[4:36]),
		bytes.Equal(m.MintRecipient, bz[36:68]),
		verifrt.IntEq(m.Amount, verifrt.IntFromBytes32(bz[68:100])),
		bytes.Equal(m.MessageSender, bz[100:132]),
	))
	out, err2 := m.Bytes()
	verifrt.Assert("C16/burn/reencode-ok", err2 == nil)
	verifrt.Assert("C16/burn/roundtrip-bytes", bytes.Equal(out, bz))
}

// any well-formed burn value (amount in [0,2^256)): encoding equals the reference and decodes back.
func Harness_C16_BurnEncode() {
	m := BurnMessage{
		Version:       verifrt.NondetU32("version"),
		BurnToken:     verifrt.NondetBytes("token", 32),
		MintRecipient: verifrt.NondetBytes("rcpt", 32),
		Amount:        verifrt.NondetIntNonNil("amount"),
		MessageSender: verifrt.NondetBytes("sender", 32),
	}
	verifrt.Assume(len(m.BurnToken) == 32)
	verifrt.Assume(len(m.MintRecipient) == 32)
	verifrt.Assume(len(m.MessageSender) == 32)
	verifrt.Assume(verifrt.IntFitsU256(m.Amount))
	out, err := m.Bytes()
	verifrt.Assert("C16/burn/encode-ok", err == nil)
	if err != nil {
		return
	}
	verifrt.Cover("encoded")
	verifrt.Assert("C16/burn/encode-vs-reference", verifrt.All(
		len(out) == 132,
		verifrt.RefU32(out, 0) == m.Version,
		bytes.Equal(out[4:36], m.BurnToken),
		bytes.Equal(out[36:68], m.MintRecipient),
		verifrt.IntEq(verifrt.IntFromBytes32(out[68:100]), m.Amount),
		bytes.Equal(out[100:132], m.MessageSender),
	))
	back, err2 := new(BurnMessage).Parse(out)
	verifrt.Assert("C16/burn/decode-of-encode-ok", err2 == nil)
	if err2 != nil {
		return
	}
	verifrt.Assert("C16/burn/roundtrip-value", verifrt.All(
		back.Version == m.Version, bytes.Equal(back.BurnToken, m.BurnToken),
		bytes.Equal(back.MintRecipient, m.MintRecipient), verifrt.IntEq(back.Amount, m.Amount),
		bytes.Equal(back.MessageSender, m.MessageSender),
	))
}

// wrong field sizes are rejected with an error.
func Harness_C16_BurnBadField() {
	m := BurnMessage{
		BurnToken:     verifrt.NondetBytesOrNil("token", 33),
		MintRecipient: verifrt.NondetBytesOrNil("rcpt", 33),
		Amount:        math.ZeroInt(),
		MessageSender: verifrt.NondetBytesOrNil("sender", 33),
	}
	wellFormed := verifrt.All(len(m.BurnToken) == 32, len(m.MintRecipient) == 32, len(m.MessageSender) == 32)
	_, err := m.Bytes()
	verifrt.Assert("C16/burn/field-size-iff", (err == nil) == wellFormed)
	if err == nil {
		verifrt.Cover("ok")
	} else {
		verifrt.Cover("rejected")
	}
}

func c16IsHex(c byte) bool {
	return verifrt.Any(verifrt.All(c >= '0', c <= '9'), verifrt.All(c >= 'a', c <= 'f'), verifrt.All(c >= 'A', c <= 'F'))
}

func c16Nib(c byte) byte {
	return verifrt.Ite8(c <= '9', c-'0', verifrt.Ite8(c >= 'a', c-'a'+10, c-'A'+10))
}

// RemoteTokenPadded: hex strings (optional 0x) of up to 32 bytes are left-padded to 32 bytes,
// anything else is an error.
func Harness_C16_RemoteTokenPadded() {
	capHex := 70
	s := verifrt.NondetString("hex", capHex)
	if verifrt.Tier() == 0 {
		// quick tier: short strings and the region around the 32-byte limit (64 hex digits)
		verifrt.Assume(verifrt.Any(len(s) <= 6, len(s) >= 62))
	}
	has0x := verifrt.NondetBool("has0x")
	in := s
	if has0x {
		in = "0x" + s
	}
	// the trimmed digits must not themselves start with 0x for the reference below to be the spec
	out, err := RemoteTokenPadded(in)
	n := verifrt.Concrete(len(s), capHex)
	valid := n%2 == 0
	for i := 0; i < n; i++ {
		valid = verifrt.All(valid, c16IsHex(s[i]))
	}
	if !has0x && n >= 2 && s[0] == '0' && s[1] == 'x' {
		verifrt.Cover("embedded-prefix")
		return // "0x" + digits given directly: covered by the has0x case
	}
	if !valid {
		verifrt.Cover("invalid-hex")
		verifrt.Assert("C16/token/invalid-hex-rejected", err != nil)
		return
	}
	if n/2 > 32 {
		verifrt.Cover("too-long")
		verifrt.Assert("C16/token/too-long-rejected", err != nil)
		return
	}
	verifrt.Cover("valid")
	verifrt.Assert("C16/token/valid-accepted", err == nil)
	if err != nil {
		return
	}
	verifrt.Assert("C16/token/length-32", len(out) == 32)
	ok := true
	pad := 32 - n/2
	for i := 0; i < 32; i++ {
		if i < pad {
			ok = verifrt.All(ok, out[i] == 0)
		} else {
			j := 2 * (i - pad)
			ok = verifrt.All(ok, out[i] == c16Nib(s[j])<<4|c16Nib(s[j+1]))
		}
	}
	verifrt.Assert("C16/token/left-padded", ok)
}
