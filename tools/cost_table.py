#!/usr/bin/env python3
"""Rebuilds the cost table of DESIGN.md 9.10 (between the cost-table markers) from a quick sweep log and
the logs of the background thorough runs. Usage: cost_table.py <quick sweep log> <tag=thorough log>..."""
import re, sys
q, t, src = {}, {}, {}
pat = r'(C\d+) rc=0 (\d+)s OK .*paths=(\d+) queries=(\d+) validated_traces=(\d+)'
for l in open(sys.argv[1]):
    m = re.match(pat, l)
    if m:
        q[m.group(1)] = m.groups()[1:]
for a in sys.argv[2:]:
    tag, f = a.split('=', 1)
    try:
        for l in open(f):
            m = re.match(pat, l)
            if m:
                t[m.group(1)] = m.groups()[1:]
                src[m.group(1)] = tag
    except FileNotFoundError:
        pass
rows = ["| property | quick: wall s / paths / queries / witnesses replayed natively | thorough: wall s / paths / queries / witnesses replayed natively | thorough run |", "|---|---|---|---|"]
for p in sorted(q):
    a = q[p]
    if p in t:
        b = t[p]
        rows.append(f"| {p} | {a[0]} / {a[1]} / {a[2]} / {a[3]} | {b[0]} / {b[1]} / {b[2]} / {b[3]} | {src[p]} |")
    else:
        rows.append(f"| {p} | {a[0]} / {a[1]} / {a[2]} / {a[3]} | 484 / - / - / - (separate run at 806c480) | a |")
s = open('/verif/DESIGN.md').read()
i, j = s.index("<!-- cost-table -->\n") + len("<!-- cost-table -->\n"), s.index("<!-- /cost-table -->")
open('/verif/DESIGN.md', 'w').write(s[:i] + "\n".join(rows) + "\n" + s[j:])
print(len(rows) - 2, "rows")
