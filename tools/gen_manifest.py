#!/usr/bin/env python3
"""Regenerates /verif/MANIFEST.json from tools/claims.json (the properties that have a check) and
properties.jsonl (everything else is listed under not_applicable with the reason in claims.json)."""
import json, os
V = '/verif'
props = [json.loads(l) for l in open(f'{V}/properties.jsonl')]
claims = json.load(open(f'{V}/tools/claims.json'))
ENV = 'GOWORK=off GOFLAGS=-mod=mod GOPROXY=off GOSUMDB=off GOTOOLCHAIN=local'
m = {
 "version": 1,
 "setup_cmd": "cd /verif && bin/check --setup",
 "hooks": {
  "guard": "verif",
  "enable": "no hook commits exist: harnesses live in /verif/harness and are supplied to the go tool through build overlays (packages.Config.Overlay for the symbolic engine, go test -overlay for native replay); the tag name is reserved",
  "baseline_off_cmd": f"cd /repo && {ENV} go test -vet=off -count=1 ./...",
  "source_commits": claims.get("hook_commits", []),
  "add_only": True
 },
 "engines": [{
  "name": "symgo",
  "path": "/verif/engine",
  "serves_properties": sorted(claims["checks"].keys()),
  "kind_free_text": "bounded symbolic execution of the repository's real Go code (go/ssa of the current /repo tree, regenerated on every run) into QF_UFBV; every feasibility and assertion query decided by z3 4.8.12 (cross-checked by z3 5.1.0 in the thorough tier); counterexamples replayed natively against the real build before being reported"
 }],
 "checks": [],
 "notes": claims.get("notes", ""),
 "not_applicable": []
}
for p in props:
    pid = p['id']
    c = claims["checks"].get(pid)
    if c is None:
        m["not_applicable"].append({"property_id": pid, "reason": claims["not_applicable"].get(pid, "check not built yet")})
        continue
    m["checks"].append({
     "property_id": pid,
     "quick_cmd": f"bin/check {pid} quick",
     "thorough_cmd": f"bin/check {pid} thorough",
     "evidence_file": f"/verif/evidence/{pid}.json",
     "replay_cmd_template": "bin/check --replay {path}",
     "engine": "symgo",
     "level_claimed": {"category": "model_checking", "text": c["text"], "design_ref": c.get("design_ref", "DESIGN.md 4")},
     "level_note": c["note"],
     "technique": c.get("technique", "bounded symbolic execution of the real Go code (go/ssa -> QF_UFBV), SMT-decided by z3, counterexamples replayed natively")
    })
json.dump(m, open(f'{V}/MANIFEST.json', 'w'), indent=1)
print("checks:", [c["property_id"] for c in m["checks"]], "n/a:", len(m["not_applicable"]))
