#!/usr/bin/env python3
"""Writes /verif/seeded/RESULTS.md from the run logs under /verif/seeded/results/ (in name order; a later
run of the same change replaces an earlier one). A .log file holds bin/mutants output lines, a .md file
a previously generated table."""
import re, glob, os
rows = {}
for f in sorted(glob.glob('/verif/seeded/results/*')):
    run = os.path.basename(f).rsplit('.', 1)[0]
    for l in open(f):
        l = l.strip()
        if f.endswith('.md'):
            m = re.match(r'\| (C\d+-m\d) \| (C\d+) \| (\d+) \| `(.*)` \|', l)
            if m:
                rows[(m.group(1), m.group(2))] = (m.group(2), m.group(3), m.group(4), run)
            continue
        m = re.match(r'(\S*?)(C\d+-m\d)_patch_diff (C\d+) exit=(\d+) (.*)', l)
        if not m:
            continue
        sid, prop, rc, rest = m.group(2), m.group(3), m.group(4), m.group(5)
        if rc not in ('0', '1', '2'):
            continue  # run interrupted
        v = re.search(r'VIOLATION property=\S+ replay=\S*/replay/(\S+?)\.json', rest)
        rows[(sid, prop)] = (prop, rc, v.group(1) if v else rest[:140], run)
out = ["# Seeded changes: result of the property's quick check with the change applied", "",
       "Produced by `bin/mutants` (scratch worktree of /repo HEAD + patch.diff, `symgo check <property> quick`); the logs are",
       "in `seeded/results/` and the last column names the run a row comes from (later runs replace earlier ones).",
       "exit 1 = VIOLATION reported after native reproduction, exit 0 = nothing reported, exit 2 = inconclusive.",
       "DESIGN.md 9.6 - 9.9 say which assertion catches which change and explain the changes that are not reported.", "",
       "| change | checked property | exit | first reproduced assertion (harness.label.n) | run |", "|---|---|---|---|---|"]
for key in sorted(rows):
    p, rc, v, run = rows[key]
    out.append(f"| {key[0]} | {p} | {rc} | `{v}` | {run} |")
open('/verif/seeded/RESULTS.md', 'w').write("\n".join(out) + "\n")
ids = sorted({k[0] for k in rows})
caught = {k[0] for k in rows if rows[k][1] == '1'}
print(len(ids), "changes;", len(caught), "reported by at least one of the checks run on them; not reported:", [i for i in ids if i not in caught])
