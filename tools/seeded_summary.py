#!/usr/bin/env python3
"""Writes /verif/seeded/RESULTS.md from out/mutants.regress.log (one line per seeded change: exit code
of the property's quick check on a scratch worktree with the change applied, first VIOLATION replay)."""
import re, json, os
rows = {}
for l in open('/verif/out/mutants.regress.log'):
    m = re.match(r'_verif_seeded_(C\d+-m\d)_patch_diff (C\d+) exit=(\d+) (.*)', l.strip())
    if not m:
        m = re.match(r'(\S*?)(C\d+-m\d)_patch_diff (C\d+) exit=(\d+) (.*)', l.strip())
        if not m:
            continue
        sid, prop, rc, rest = m.group(2), m.group(3), m.group(4), m.group(5)
    else:
        sid, prop, rc, rest = m.groups()
    v = re.search(r'VIOLATION property=\S+ replay=\S*/replay/(\S+?)\.json', rest)
    rows[sid] = (prop, rc, v.group(1) if v else rest[:120])
out = ["# Seeded changes: result of the property's quick check with the change applied", "",
       "Produced by `bin/mutants` (scratch worktree of /repo HEAD + patch.diff, `symgo check <property> quick`).",
       "exit 1 = VIOLATION reported after native reproduction; see DESIGN.md 9.6 / 9.7 for the two changes that are not reported and why.", "",
       "| change | property | exit | first reproduced assertion (harness.label.n) |", "|---|---|---|---|"]
for sid in sorted(rows):
    p, rc, v = rows[sid]
    out.append(f"| {sid} | {p} | {rc} | `{v}` |")
open('/verif/seeded/RESULTS.md', 'w').write("\n".join(out) + "\n")
print(len(rows), "rows;", sum(1 for r in rows.values() if r[1] == '1'), "caught")
